/-
  Thm/C10.lean — PROPERTY C10: the directive rules fire exactly when the spec condition is
  violated (for every document, at every nesting depth).
-/
import GqlVerif.Lemmas.KnownDirectives
import GqlVerif.Lemmas.Schema
import GqlVerif.Thm.C13
namespace Gql.C10
open Gql.Spec

theorem dirCheck_ne_nil (s : Schema) (hn : (s.directives.map (·.name)).Nodup) (loc : DirLoc) (dir : Directive) :
    dirCheck s (some loc) dir ≠ [] ↔
      (match s.directiveByName dir.name with
       | none => True
       | some dd => loc ∉ dd.locations) := by
  simp only [dirCheck, directiveMapGet_eq_directiveByName s hn]
  cases s.directiveByName dir.name with
  | none => simp
  | some dd =>
    simp only
    by_cases h : loc ∈ dd.locations
    · have : dd.locations.any (fun l => l == loc) = true := List.any_eq_true.2 ⟨loc, h, by simp⟩
      simp [this, h]
    · have : dd.locations.any (fun l => l == loc) = false := by
        rw [List.any_eq_false]; intro x hx hxl; exact h (by have := (beq_iff_eq.1 hxl); rwa [this] at hx)
      simp [this, h]

/-- 'known directives' reports iff some directive is not declared or is used at a location its
    declaration does not list.  The proof carries the invariant "while the directives of a node
    are visited, `recent_location` is that node's location" through the whole traversal. -/
theorem knownDirectives_iff (s : Schema) (d : Document) (hq : s.queryType.isSome = true)
    (hn : (s.directives.map (·.name)).Nodup) :
    fires .knownDirectives s d ↔ KnownDirectivesViolated s d := by
  unfold fires errsOf
  simp only [ruleOf, Rule.runOn]
  have hfin : ∀ σ, knownDirectives.finish s d σ = [] := fun _ => rfl
  rw [hfin, List.append_nil]
  have h0 : (knownDirectives.init, ([] : List Err)) = ((none : Option DirLoc), ([] : List Err)) := rfl
  rw [kd_fold_eq, walkOf_events s d hq, h0, kd_document]
  rw [flatMap_ne_nil_iff]
  simp only [KnownDirectivesViolated]
  constructor
  · rintro ⟨p, hp, hne⟩
    exact ⟨p, hp, (dirCheck_ne_nil s hn p.2 p.1).1 hne⟩
  · rintro ⟨p, hp, hv⟩
    exact ⟨p, hp, (dirCheck_ne_nil s hn p.2 p.1).2 hv⟩

end Gql.C10

namespace Gql.C10
open Gql.Spec

/-- the directive list carried by an `enter` callback of a directive-bearing node -/
def udEnter : Ev → Option (List Directive)
  | .enter (.operation o) => some o.dirs
  | .enter (.field f) => some f.dirs
  | .enter (.fragmentDef f) => some f.dirs
  | .enter (.spread sp) => some sp.dirs
  | .enter (.inline i) => some i.dirs
  | _ => none

/-- lists of events without directive-bearing `enter`s -/
def NoOwner (l : List Ev) : Prop := ∀ e ∈ l, udEnter e = none

theorem NoOwner.nil : NoOwner [] := by simp [NoOwner]
theorem NoOwner.append {a b : List Ev} (ha : NoOwner a) (hb : NoOwner b) : NoOwner (a ++ b) := by
  intro e he; rcases List.mem_append.1 he with h | h; exact ha e h; exact hb e h
theorem NoOwner.cons {e : Ev} {l : List Ev} (he : udEnter e = none) (hl : NoOwner l) : NoOwner (e :: l) := by
  intro x hx; rcases List.mem_cons.1 hx with rfl | h; exact he; exact hl x h
theorem NoOwner.filterMap {l : List Ev} (h : NoOwner l) : l.filterMap udEnter = [] :=
  List.filterMap_eq_nil_iff.2 h

mutual
theorem noOwner_value : ∀ v, NoOwner (traverseValue v)
  | .bool _ | .float _ | .int _ | .str _ | .null | .enum _ | .var _ => by
      simp [traverseValue, NoOwner, udEnter]
  | .list vs => by
      simp only [traverseValue]
      exact NoOwner.cons rfl (NoOwner.append (noOwner_values vs) (NoOwner.cons rfl NoOwner.nil))
  | .obj fs => by
      simp only [traverseValue]
      exact NoOwner.cons rfl (NoOwner.append (noOwner_objFields fs) (NoOwner.cons rfl NoOwner.nil))
theorem noOwner_values : ∀ vs, NoOwner (traverseValues vs)
  | [] => by simp [traverseValues, NoOwner]
  | v :: vs => by simp only [traverseValues]; exact (noOwner_value v).append (noOwner_values vs)
theorem noOwner_objFields : ∀ fs, NoOwner (traverseObjFields fs)
  | [] => by simp [traverseObjFields, NoOwner]
  | (k, v) :: fs => by
      simp only [traverseObjFields]
      exact NoOwner.append (NoOwner.cons rfl (NoOwner.append (noOwner_value v) (NoOwner.cons rfl NoOwner.nil))) (noOwner_objFields fs)
end

theorem noOwner_arguments : ∀ as, NoOwner (traverseArguments as)
  | [] => by simp [traverseArguments, NoOwner]
  | a :: as => by
      simp only [traverseArguments]
      exact NoOwner.append (NoOwner.cons rfl (NoOwner.append (noOwner_value a.2) (NoOwner.cons rfl NoOwner.nil))) (noOwner_arguments as)

theorem noOwner_directives : ∀ ds, NoOwner (traverseDirectives ds)
  | [] => by simp [traverseDirectives, NoOwner]
  | d :: ds => by
      simp only [traverseDirectives]
      exact NoOwner.append (NoOwner.cons rfl (NoOwner.append (noOwner_arguments d.args) (NoOwner.cons rfl NoOwner.nil))) (noOwner_directives ds)

theorem noOwner_varDefs : ∀ vs, NoOwner (traverseVarDefs vs)
  | [] => by simp [traverseVarDefs, NoOwner]
  | v :: vs => by
      simp only [traverseVarDefs]
      refine NoOwner.append (NoOwner.cons rfl (NoOwner.append ?_ (NoOwner.cons rfl NoOwner.nil))) (noOwner_varDefs vs)
      cases v.default with
      | none => exact NoOwner.nil
      | some dv => exact noOwner_value dv

mutual
theorem owners_selection : ∀ x, (traverseSelection x).filterMap udEnter = directiveListsOfSelection x
  | .field pos alias name args dirs sel => by
      have h1 := (noOwner_arguments args).filterMap
      have h2 := (noOwner_directives dirs).filterMap
      simp [traverseSelection, directiveListsOfSelection, List.filterMap_append, List.filterMap_cons, udEnter, h1, h2, owners_selections sel]
  | .spread pos name dirs => by
      have h2 := (noOwner_directives dirs).filterMap
      simp [traverseSelection, directiveListsOfSelection, List.filterMap_append, List.filterMap_cons, udEnter, h2]
  | .inline pos tc dirs sel => by
      have h2 := (noOwner_directives dirs).filterMap
      simp [traverseSelection, directiveListsOfSelection, List.filterMap_append, List.filterMap_cons, udEnter, h2, owners_selections sel]
theorem owners_selections : ∀ xs, (traverseSelections xs).filterMap udEnter = directiveListsOfSelections xs
  | [] => by simp [traverseSelections, directiveListsOfSelections]
  | x :: xs => by
      simp [traverseSelections, directiveListsOfSelections, List.filterMap_append, owners_selection x, owners_selections xs]
end

theorem owners_document (d : Document) : (traverseDocument d).filterMap udEnter = directiveLists d := by
  have hdefs : ∀ ds : List Definition, (traverseDefinitions ds).filterMap udEnter =
      ds.flatMap directiveListsOfDefinition := by
    intro ds
    induction ds with
    | nil => simp [traverseDefinitions]
    | cons x xs ih =>
      cases x with
      | op o =>
        have h1 := (noOwner_directives o.dirs).filterMap
        have h2 := (noOwner_varDefs o.vars).filterMap
        simp [traverseDefinitions, traverseDefinition, traverseSelectionSet, List.filterMap_append, List.filterMap_cons, udEnter, h1, h2,
          owners_selections o.sel, ih, directiveListsOfDefinition]
      | frag f =>
        have h1 := (noOwner_directives f.dirs).filterMap
        simp [traverseDefinitions, traverseDefinition, traverseSelectionSet, List.filterMap_append, List.filterMap_cons, udEnter, h1,
          owners_selections f.sel, ih, directiveListsOfDefinition]
  simp [traverseDocument, List.filterMap_append, List.filterMap_cons, udEnter, hdefs, directiveLists]

/-- the duplicate check on one directive list -/
theorem dupErrs_ne_nil (s : Schema) : ∀ (l : List Directive) (seen : List Name),
    duplicateDirectiveErrors s l seen ≠ [] ↔
      ∃ n dd, s.directiveMapGet n = some dd ∧ dd.repeatable = false ∧
        ((n ∈ seen ∧ n ∈ l.map (·.name)) ∨ (l.map (·.name)).count n ≥ 2)
  | [], seen => by simp [duplicateDirectiveErrors]
  | dir :: rest, seen => by
      simp only [duplicateDirectiveErrors]
      cases hdd : s.directiveMapGet dir.name with
      | none =>
        simp only
        rw [dupErrs_ne_nil s rest seen]
        constructor
        · rintro ⟨n, dd, h1, h2, h3⟩
          have hne : dir.name ≠ n := by intro h; rw [h] at hdd; simp [hdd] at h1
          refine ⟨n, dd, h1, h2, ?_⟩
          rcases h3 with ⟨a, b⟩ | c
          · exact Or.inl ⟨a, by simp [b]⟩
          · exact Or.inr (by simp [List.count_cons, hne]; exact c)
        · rintro ⟨n, dd, h1, h2, h3⟩
          have hne : dir.name ≠ n := by intro h; rw [h] at hdd; simp [hdd] at h1
          refine ⟨n, dd, h1, h2, ?_⟩
          rcases h3 with ⟨a, b⟩ | c
          · simp only [List.map_cons, List.mem_cons] at b
            rcases b with b | b
            · exact absurd b.symm hne
            · exact Or.inl ⟨a, b⟩
          · simp only [List.map_cons, List.count_cons, beq_iff_eq, hne, if_false, Nat.add_zero] at c
            exact Or.inr c
      | some dd0 =>
        simp only
        cases hrep : dd0.repeatable with
        | true =>
          simp only [Bool.not_true, Bool.false_eq_true, if_false]
          rw [dupErrs_ne_nil s rest seen]
          constructor
          · rintro ⟨n, dd, h1, h2, h3⟩
            have hne : dir.name ≠ n := by intro h; rw [h] at hdd; rw [hdd] at h1; cases h1; simp [hrep] at h2
            refine ⟨n, dd, h1, h2, ?_⟩
            rcases h3 with ⟨a, b⟩ | c
            · exact Or.inl ⟨a, by simp [b]⟩
            · exact Or.inr (by simp [List.count_cons, hne]; exact c)
          · rintro ⟨n, dd, h1, h2, h3⟩
            have hne : dir.name ≠ n := by intro h; rw [h] at hdd; rw [hdd] at h1; cases h1; simp [hrep] at h2
            refine ⟨n, dd, h1, h2, ?_⟩
            rcases h3 with ⟨a, b⟩ | c
            · simp only [List.map_cons, List.mem_cons] at b
              rcases b with b | b
              · exact absurd b.symm hne
              · exact Or.inl ⟨a, b⟩
            · simp only [List.map_cons, List.count_cons, beq_iff_eq, hne, if_false, Nat.add_zero] at c
              exact Or.inr c
        | false =>
          simp only [Bool.not_false, if_true]
          by_cases hseen : dir.name ∈ seen
          · have : seen.contains dir.name = true := by simpa using hseen
            simp only [this, if_true, ne_eq, reduceCtorEq, not_false_eq_true, true_iff]
            exact ⟨dir.name, dd0, hdd, hrep, Or.inl ⟨hseen, by simp⟩⟩
          · have : seen.contains dir.name = false := by simpa using hseen
            simp only [this, Bool.false_eq_true, if_false]
            rw [dupErrs_ne_nil s rest (dir.name :: seen)]
            constructor
            · rintro ⟨n, dd, h1, h2, h3⟩
              refine ⟨n, dd, h1, h2, ?_⟩
              rcases h3 with ⟨a, b⟩ | c
              · simp only [List.mem_cons] at a
                rcases a with a | a
                · right
                  subst a
                  have : 1 ≤ (rest.map (·.name)).count dir.name := List.count_pos_iff.2 b
                  rw [List.map_cons, List.count_cons_self]; omega
                · exact Or.inl ⟨a, by simp [b]⟩
              · right
                simp only [List.map_cons, List.count_cons]
                split <;> omega
            · rintro ⟨n, dd, h1, h2, h3⟩
              refine ⟨n, dd, h1, h2, ?_⟩
              rcases h3 with ⟨a, b⟩ | c
              · simp only [List.map_cons, List.mem_cons] at b
                rcases b with b | b
                · subst b; exact absurd a hseen
                · exact Or.inl ⟨by simp [a], b⟩
              · simp only [List.map_cons, List.count_cons, beq_iff_eq] at c
                by_cases hnn : dir.name = n
                · subst hnn
                  simp only [if_true] at c
                  have : 1 ≤ (rest.map (·.name)).count dir.name := by omega
                  exact Or.inl ⟨by simp, List.count_pos_iff.1 this⟩
                · simp only [hnn, if_false, Nat.add_zero] at c
                  exact Or.inr c

/-- 'unique directives per location' reports iff a declared non-repeatable directive appears
    more than once on one node. -/
theorem uniqueDirectives_iff (s : Schema) (d : Document) (hq : s.queryType.isSome = true)
    (hn : (s.directives.map (·.name)).Nodup) :
    fires .uniqueDirectivesPerLocation s d ↔ UniqueDirectivesViolated s d := by
  unfold fires errsOf
  simp only [ruleOf, uniqueDirectivesPerLocation]
  rw [stateless_runOn]
  have hcheck : ∀ e : Ev × Snap,
      udCheck s e = (match udEnter e.1 with | some l => duplicateDirectiveErrors s l [] | none => []) := by
    rintro ⟨ev, sn⟩
    cases ev with
    | enter n => cases n <;> rfl
    | leave n => rfl
  have hfun : (fun e => udCheck s e) = fun e : Ev × Snap =>
      (match udEnter e.1 with | some l => duplicateDirectiveErrors s l [] | none => []) := funext hcheck
  rw [hfun]
  have hmap : (walkOf s d).flatMap (fun e => match udEnter e.1 with | some l => duplicateDirectiveErrors s l [] | none => [])
      = (((walkOf s d).map Prod.fst).filterMap udEnter).flatMap (fun l => duplicateDirectiveErrors s l []) := by
    generalize walkOf s d = tr
    induction tr with
    | nil => rfl
    | cons e tr ih =>
      simp only [List.flatMap_cons, List.map_cons, List.filterMap_cons, ih]
      cases udEnter e.1 <;> simp
  rw [hmap, walkOf_events s d hq, owners_document, flatMap_ne_nil_iff]
  simp only [UniqueDirectivesViolated]
  constructor
  · rintro ⟨l, hl, hne⟩
    obtain ⟨n, dd, h1, h2, h3⟩ := (dupErrs_ne_nil s l []).1 hne
    rw [directiveMapGet_eq_directiveByName s hn] at h1
    rcases h3 with ⟨a, _⟩ | c
    · simp at a
    · exact ⟨l, hl, n, dd, h1, h2, c⟩
  · rintro ⟨l, hl, n, dd, h1, h2, c⟩
    refine ⟨l, hl, (dupErrs_ne_nil s l []).2 ⟨n, dd, ?_, h2, Or.inr c⟩⟩
    rw [directiveMapGet_eq_directiveByName s hn]; exact h1

theorem codes_C10 (s : Schema) (d : Document) :
    (∀ e ∈ errsOf .knownDirectives s d, e.code = .knownDirectives) ∧
    (∀ e ∈ errsOf .uniqueDirectivesPerLocation s d, e.code = .uniqueDirectivesPerLocation) :=
  ⟨C13.codes s d _ _, C13.codes s d _ _⟩

/-! Non-vacuity: `directive @f on FIELD`, `directive @q repeatable on QUERY`, `type Query { a: Int }` -/
def exSchema : Schema :=
  [ .type (.object 0 [] [⟨20, [], .named 6⟩]), .type (.scalar 6),
    .directive ⟨22, false, [.field], []⟩, .directive ⟨24, true, [.query], []⟩ ]
def qd (opDirs : List Directive) (fieldDirs : List Directive) : Document :=
  [.op ⟨.query, ⟨1, 1⟩, none, [], opDirs, [.field ⟨1, 9⟩ none 20 [] fieldDirs []]⟩]
def dr (n : Name) : Directive := ⟨⟨1, 3⟩, n, []⟩

example : ¬ fires .knownDirectives exSchema (qd [dr 24, dr 24] [dr 22]) := by decide
example : fires .knownDirectives exSchema (qd [dr 22] []) := by decide            -- @f on a query
example : fires .knownDirectives exSchema (qd [] [dr 26]) := by decide            -- unknown directive
example : fires .uniqueDirectivesPerLocation exSchema (qd [] [dr 22, dr 22]) := by decide
example : ¬ fires .uniqueDirectivesPerLocation exSchema (qd [dr 24, dr 24] [dr 22]) := by decide  -- repeatable

end Gql.C10
