/-
  Thm/C05c.lean — PROPERTY C05 (and through it C02, C01) at full strength on documents without
  fragment cycles — the class the property quantifies over: run alone, the 'overlapping fields can
  be merged' rule reports iff FieldsInSetCanMerge (Spec/Merge.lean, from the specification text)
  fails for some selection set of the document — for every schema, every nesting of fields, inline
  fragments and named fragment spreads (shared sub-fragments, diamonds, several spread paths).

  Soundness is `merge_sound` (Lemmas/MergeSound ... MergeFinal); completeness is `merge_complete`
  (Lemmas/MergeRank, MergeCanon, MergeDecomp, MergeComplete, MergeCompleteStep, MergeCompleteTop,
  MergeCompleteFinal): the memo table `compared_fragments` (entries made before the comparison is
  done, flags only lowered), the `visited_fragments` lists and the early exits never skip a
  comparison whose outcome has not been established already.  Since the verdict of the rule is a
  function of FieldsInSetCanMerge, it does not depend on the order of selections, spreads or
  definitions (`MergeViolated` quantifies over selection sets and unordered pairs).

  C02: a document that violates any of the 24 conditions is rejected by the default plan
  (`invalid_rejected_plain`), C01 ∧ C02: `accepted_iff_valid_plain` — no hypothesis on any rule.
-/
import GqlVerif.Lemmas.MergeCompleteFinal
import GqlVerif.Thm.C01b
namespace Gql.C05
open Gql.Spec

/-- **C05, completeness.**  Without a fragment cycle, the rule reports whenever FieldsInSetCanMerge fails. -/
theorem merge_complete_acyclic (s : Schema) (d : Document) (hq : s.queryType.isSome = true) (htc : TcKnown s d)
    (hu : ArgsUniq s d) (hac : ¬ FragmentCycle d) (h : MergeViolated s d) : fires .overlappingFieldsCanBeMerged s d :=
  Gql.merge_complete s d hq htc hu hac h

/-- **C05.**  Without a fragment cycle, the rule reports iff FieldsInSetCanMerge fails for some selection set. -/
theorem merge_iff_acyclic (s : Schema) (d : Document) (hq : s.queryType.isSome = true) (htc : TcKnown s d)
    (hu : ArgsUniq s d) (hac : ¬ FragmentCycle d) :
    fires .overlappingFieldsCanBeMerged s d ↔ MergeViolated s d :=
  ⟨fun h => (violatedEx_iff_of_acyclic s d hq hac).1 (merge_sound s d hq htc hu h), merge_complete_acyclic s d hq htc hu hac⟩

/-- the hypothesis `MergeAgrees` of the partial theorems of C01/C02 holds on every such document -/
theorem mergeAgrees_acyclic (s : Schema) (d : Document) (hq : s.queryType.isSome = true) (htc : TcKnown s d)
    (hu : ArgsUniq s d) (hac : ¬ FragmentCycle d) : C01.MergeAgrees s d :=
  merge_iff_acyclic s d hq htc hu hac

/-! ### the hypotheses are satisfiable by a document with nested spreads on which the rule reports:
    the F15 regression document (two spread paths into a chain of fragments) -/

theorem argsUniq_of_all (s : Schema) (d : Document)
    (h : (walkOf s d).all (fun e => match e.1 with
      | .enter (.field f) => decide ((f.args.map (·.1)).Nodup)
      | _ => true) = true) : ArgsUniq s d := by
  intro f env hm
  have := List.all_eq_true.1 h _ hm
  simpa using this

theorem f15_tcKnown : TcKnown exSchema f15Doc := by
  unfold TcKnown
  decide
theorem f15_argsUniq : ArgsUniq exSchema f15Doc := argsUniq_of_all _ _ (by decide +kernel)

/-- a rank that every spread edge lowers excludes fragment cycles -/
theorem acyclic_of_rank (d : Document) (rk : Name → Nat) (h : ∀ a b, b ∈ spreadsOf d a → rk b < rk a) : ¬ FragmentCycle d := by
  rintro ⟨a, b, hb, hr⟩
  have key : ∀ {x y : Name}, Reachable (spreadsOf d) x y → rk y ≤ rk x := by
    intro x y hxy
    induction hxy with
    | refl => exact Nat.le_refl _
    | step hm _ ih => have := h _ _ hm; omega
  have := h a b hb
  have := key hr
  omega

theorem f15_acyclic : ¬ FragmentCycle f15Doc := by
  apply acyclic_of_rank f15Doc (fun n => if n = 50 then 1 else 0)
  intro a b hb
  simp only [spreadsOf, f15Doc, q, frag, fld, spr, Document.fragments, List.filter_cons, List.filter_nil] at hb
  split at hb
  · rename_i h1
    split at hb
    · rename_i h2
      have e1 : (50 : Name) = a := by simpa using h1
      have e2 : (52 : Name) = a := by simpa using h2
      exact absurd (e1.trans e2.symm) (by decide)
    · simp_all [recursiveSpreads, recursiveSpreadsSel]
  · split at hb <;> simp_all [recursiveSpreads, recursiveSpreadsSel]

/-- all hypotheses of `merge_iff_acyclic` hold of the F15 document, on which both sides are true -/
example : fires .overlappingFieldsCanBeMerged exSchema f15Doc ↔ MergeViolated exSchema f15Doc :=
  merge_iff_acyclic _ _ (by decide) f15_tcKnown f15_argsUniq f15_acyclic

end Gql.C05

namespace Gql.C01
open Gql.Spec

/-- **C02.**  On a well-formed schema, a document that violates at least one of the 24 conditions
    gets at least one error from the default plan — whichever condition it is, the field-merging
    one included, with or without fragment cycles. -/
theorem invalid_rejected_plain (s : Schema) (d : Document) (hs : SchemaOk s) (hd : DocOk d) (hi : NoIntrospectionConditions s d)
    (r : RuleId) (hv : Violates r s d) : ∃ errs, validate s d Gen.defaultPlan = some errs ∧ errs ≠ [] := by
  by_cases h1 : r = .overlappingFieldsCanBeMerged
  · subst h1
    by_cases hac : FragmentCycle d
    · exact invalid_rejected s d hs hd .noFragmentsCycle (by decide) hac
    by_cases hk : UnknownTypeReferenced s d
    · exact invalid_rejected s d hs hd .knownTypeNames (by decide) hk
    by_cases hda : DuplicateArgument s d
    · exact invalid_rejected s d hs hd .uniqueArgumentNames (by decide) hda
    have hf := C05.merge_complete_acyclic s d hs.queryRoot (tcKnown_of_valid s d hs.queryRoot hk hi) (argsUniq_of_valid s d hda) hac hv
    refine ⟨_, C03.no_panic s d hs.queryRoot _, fun he => ?_⟩
    have := (accepted_iff_none_fires s d hs.queryRoot).1 (by rw [C03.no_panic s d hs.queryRoot, he])
    exact this _ hf
  · exact invalid_rejected s d hs hd r h1 hv

/-- **C01 ∧ C02.**  The default plan returns the empty list iff none of the 24 conditions is violated. -/
theorem accepted_iff_valid_plain (s : Schema) (d : Document) (hs : SchemaOk s) (hd : DocOk d) (hi : NoIntrospectionConditions s d) :
    validate s d Gen.defaultPlan = some [] ↔ ∀ r, ¬ Violates r s d := by
  constructor
  · intro h r hv
    obtain ⟨errs, he, hne⟩ := invalid_rejected_plain s d hs hd hi r hv
    rw [h] at he
    cases he
    exact hne rfl
  · exact valid_accepted_plain s d hs hd hi

end Gql.C01
