/-
  Thm/C03b.lean — PROPERTY C03, the field-merging rule: on EVERY document without fragment cycles
  (any schema, any fragments and spreads, valid or not) the rule's recursion ends — the model never
  runs out of the fuel `mergeFuel d`, so its `stuck` flag (the model's image of a stack overflow)
  stays clear.  Together with `merge_stuck_witness` this locates finding F16 exactly: the unbounded
  recursion needs a fragment cycle.
-/
import GqlVerif.Lemmas.MergeTerm
import GqlVerif.Thm.C03
namespace Gql.C03
open Gql.Spec

/-- the model's fuel covers every selection set of the document -/
theorem mergeFuel_covers (d : Document) (sel : List Selection) (hsel : selsDepth sel ≤ docDepth d) :
    cK d * (Hs d sel + 1) ≤ mergeFuel d := by
  have h1 := Hs_bound d sel
  have h2 : Hs d sel + 1 ≤ (d.fragments.length + 2) * docDepth d + 1 := by
    have : (d.fragments.length + 2) * docDepth d = (d.fragments.length + 1) * docDepth d + docDepth d := Nat.succ_mul _ _
    omega
  have h3 := Nat.mul_le_mul_left (cK d) h2
  unfold mergeFuel
  unfold cK at h3 ⊢
  omega

/-- **C03, field-merging rule.**  Without a fragment cycle the rule's recursion always ends. -/
theorem merge_terminates_acyclic (s : Schema) (d : Document) (hq : s.queryType.isSome = true)
    (hac : ¬ FragmentCycle d) : (mergeFinal s d).stuck = false := by
  unfold mergeFinal
  have key : ∀ (tr : Trace) (acc : overlappingFieldsCanBeMerged.σ × List Err), (∀ e ∈ tr, e ∈ walkOf s d) →
      (acc.1 : MergeRuleState).stuck = false →
      ((tr.foldl (overlappingFieldsCanBeMerged.step s d) acc).1 : MergeRuleState).stuck = false := by
    intro tr
    induction tr with
    | nil => intro acc _ h; exact h
    | cons e tr ih =>
      intro acc hsub hacc
      rw [List.foldl_cons]
      apply ih _ (fun x hx => hsub x (by simp [hx]))
      obtain ⟨ev, env⟩ := e
      cases ev with
      | leave n => exact hacc
      | enter n =>
        cases n with
        | selectionSet sel =>
          have hm := hsub _ (List.mem_cons_self)
          have hsel : selsDepth sel ≤ docDepth d := selset_depth_document d sel (enter_of_walk s d hq hm)
          have ht := selset_terminates s d hac (mergeFuel d) env.parent sel
            { compared := acc.1.compared, visited := [], stuck := false, guardHit := false } rfl (mergeFuel_covers d sel hsel)
          simp only [Rule.step, overlappingFieldsCanBeMerged]
          simp only [hacc, ht, Bool.or_false]
        | _ => exact hacc
  exact key (walkOf s d) _ (fun _ h => h) rfl

/-- the hypothesis is met by documents with fragment spreads: `{ t { ...F } } fragment F on T { t { t } }` -/
example : ¬ FragmentCycle
    [ .op ⟨.shorthand, ⟨0, 0⟩, none, [], [], [tf [.spread ⟨1, 2⟩ 30 []]]⟩,
      .frag ⟨⟨2, 1⟩, 30, 22, [], [tf [tf []]]⟩ ] := by
  rintro ⟨a, b, hb, _⟩
  simp only [spreadsOf, Document.fragments, tf, List.filter_cons, List.filter_nil, List.flatMap_cons, List.flatMap_nil] at hb
  split at hb <;> simp [recursiveSpreads, recursiveSpreadsSel] at hb

end Gql.C03
