/-
  Thm/C03.lean — PROPERTY C03 (partial): validation returns normally.
  Proved: with a query root type, `validate` with any plan returns (the model's only "panic" is
  the `.expect()` on a missing root type); every fuel-taking function of the model except the
  field-merging rule provably never runs out of fuel (so the model's `stuck` flags are dead for
  them, and the real recursion is bounded by the same measure).  The field-merging rule does run
  out on the witness of finding F16 (`merge_stuck_witness`); the real code overflows its stack there.
-/
import GqlVerif.Thm.C13
import GqlVerif.Thm.C19
import GqlVerif.Thm.C06
import GqlVerif.Thm.C07
namespace Gql.C03
open Gql.Spec

/-- with a query root type `validate` returns, for every plan: the concatenation of what each rule reports alone -/
theorem no_panic (s : Schema) (d : Document) (hq : s.queryType.isSome = true) (plan : List RuleId) :
    validate s d plan = some (plan.flatMap fun r => errsOf r s d) := by
  cases hv : visitDocument s d with
  | none =>
    obtain ⟨o, _, _, hnone⟩ := (C15.visit_none_iff s d).1 hv
    simp [hnone] at hq
  | some v =>
    rw [C13.validate_eq_flatMap_single s d plan v hv]
    congr 1
    induction plan with
    | nil => rfl
    | cons r rs ih => simp only [List.flatMap_cons, ih, validate_single_eq s d r hq, Option.getD_some]

/-- the model's panic is exactly the missing root type of some operation -/
theorem panic_iff (s : Schema) (d : Document) (plan : List RuleId) (hne : plan ≠ []) :
    validate s d plan = none ↔ visitDocument s d = none := C13.validate_none_iff s d plan hne

/-- collect_fields: fuel `#fragments + 1` suffices -/
theorem collect_fuel_ok (s : Schema) (d : Document) (R : TypeDef) (sel : List Selection) :
    (collectFields s d R sel).stuck = false := C19.collect_terminates s d R sel

/-- no_unused_fragments: the marking pass never runs out -/
theorem unused_fuel_ok (st : UnusedState) : st.used.stuck = false := C06.used_not_stuck st

/-- the three graph-walking variable rules: the marking pass over scopes never runs out -/
theorem reach_fuel_ok (spreads : List (Scope × List Name)) (root : Scope) :
    (reachScopes spreads (spreadFuel spreads) root {}).stuck = false := reach_not_stuck spreads root

/-- no_fragments_cycle: `detect_cycles` never runs out of its `#fragments + 1` fuel (depth of the
    recursion ≤ number of distinct unvisited fragment names) -/
theorem cycle_fuel_ok (d : Document) (hn : (d.fragments.map (·.name)).Nodup) :
    ((d.flatMap defGEvs).foldl (cycG d) (({} : CycleState), ([] : List Err))).1.stuck = false :=
  (cyc_run d hn d ({}, []) (fun _ h => h) rfl).1

/-! The field-merging rule: the witness of F16.
    `{ t { ...F } } fragment F on T { t { t { ...F } ...F } }` over
    `type Query { t: T }  type T { t: T }` — ids Query=0 t=20 T=22 F=30 -/
def f16Schema : Schema := [ .type (.object 0 [] [⟨20, [], .named 22⟩]), .type (.object 22 [] [⟨20, [], .named 22⟩]) ]
def tf (sel : List Selection) : Selection := .field ⟨1, 1⟩ none 20 [] [] sel
def f16Doc : Document :=
  [ .op ⟨.shorthand, ⟨0, 0⟩, none, [], [], [tf [.spread ⟨1, 2⟩ 30 []]]⟩,
    .frag ⟨⟨2, 1⟩, 30, 22, [], [tf [tf [.spread ⟨2, 5⟩ 30 []], .spread ⟨2, 9⟩ 30 []]]⟩ ]

/-- the state of the merging rule after the walk of a document -/
def mergeFinal (s : Schema) (d : Document) : MergeRuleState :=
  ((walkOf s d).foldl (overlappingFieldsCanBeMerged.step s d) (overlappingFieldsCanBeMerged.init, [])).1

/-- **F16 (known finding).**  On this document the merging rule's recursion does not end: the
    model runs out of its fuel (the real code overflows its stack and the process aborts). -/
theorem merge_stuck_witness : (mergeFinal f16Schema f16Doc).stuck = true := by decide +kernel

end Gql.C03
