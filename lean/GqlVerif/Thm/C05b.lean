/-
  Thm/C05b.lean — PROPERTY C05, the proved part: on documents without fragment spreads (and with
  declared inline-fragment type conditions) the field-merging rule reports iff the spec's
  FieldsInSetCanMerge fails for some selection set of the document.
-/
import GqlVerif.Lemmas.MergeVisited
import GqlVerif.Thm.C01
namespace Gql.C05
open Gql.Spec

/-- a rule whose state does not move along a trace reports the per-callback errors -/
theorem runOn_const (r : Rule) (s : Schema) (d : Document) (chk : Ev × Snap → List Err) :
    ∀ (tr : Trace), (∀ e ∈ tr, r.on s d r.init e = (r.init, chk e)) →
      r.runOn s d tr = tr.flatMap chk ++ r.finish s d r.init := by
  intro tr h
  have key : ∀ (tr : Trace) (errs : List Err), (∀ e ∈ tr, r.on s d r.init e = (r.init, chk e)) →
      tr.foldl (r.step s d) (r.init, errs) = (r.init, errs ++ tr.flatMap chk) := by
    intro tr
    induction tr with
    | nil => intro errs _; simp
    | cons e tr ih =>
      intro errs h
      rw [List.foldl_cons]
      have he : r.step s d (r.init, errs) e = (r.init, errs ++ chk e) := by
        simp [Rule.step, h e (by simp)]
      rw [he, ih _ (fun x hx => h x (by simp [hx]))]
      simp [List.append_assoc]
  simp [Rule.runOn, key tr [] h]

/-- what the rule reports at one callback of a spread-free document -/
def mergeChk (s : Schema) (d : Document) (e : Ev × Snap) : List Err :=
  match e.1 with
  | .enter (.selectionSet sel) =>
    (conflictsWithinSelectionSet s d (mergeFuel d) e.2.parent sel {}).1.map fun c =>
      ⟨.overlappingFieldsCanBeMerged, c.pos1 ++ c.pos2, .fieldsConflict c.key c.reason⟩
  | _ => []

/-- one visited selection set: the state is handed back, and something is reported iff two
    same-key collected fields conflict -/
theorem selset_step (s : Schema) (d : Document) (sel : List Selection) (parent : Option TypeDef)
    (hg : GoodSel s (docDepth d) sel) :
    ∃ cs, conflictsWithinSelectionSet s d (mergeFuel d) parent sel {} = (cs, {}) ∧
      (cs = [] ↔ ¬ WBad s (specFieldsWith s (fun _ => []) parent sel)) := by
  unfold conflictsWithinSelectionSet
  rw [fieldsAndFragmentNames_ff s (fun _ => []) parent sel hg.1]
  have hF : ∀ a ∈ specFieldsWith s (fun _ => []) parent sel, depOf a ≤ docDepth d ∧ ffOf a := by
    intro a ha
    obtain ⟨h1, h2⟩ := mem_specSels_dep s _ sel parent a hg.1 ha
    exact ⟨by have := hg.2.2; omega, h2⟩
  obtain ⟨cs, hcs, hiff⟩ := conflictsWithin_ff s d (docDepth d) (mergeFuel d) _ {} hF (by unfold mergeFuel; omega) rfl
  refine ⟨cs, ?_, ?_⟩
  · simp only [hcs, conflictsWithinSelectionSet.loop]
  · rw [hiff]; unfold WBad; exact ⟨fun h hn => hn h, fun h => Classical.byContradiction h⟩

/-- **C05 on spread-free documents.** -/
theorem merge_iff_spreadFree (s : Schema) (d : Document) (hq : s.queryType.isSome = true)
    (hsf : SpreadFree d) (htc : TcKnown s d) :
    fires .overlappingFieldsCanBeMerged s d ↔ MergeViolated s d := by
  have hssc := ssc_walkOf s d hq hsf htc
  -- the rule: state constant, per-callback report
  have hstep : ∀ e ∈ walkOf s d,
      overlappingFieldsCanBeMerged.on s d overlappingFieldsCanBeMerged.init e = (overlappingFieldsCanBeMerged.init, mergeChk s d e) := by
    rintro ⟨ev, env⟩ hm
    cases ev with
    | leave n => rfl
    | enter n =>
      cases n with
      | selectionSet sel =>
        obtain ⟨_, hg, _⟩ := hssc sel env hm
        obtain ⟨cs, hcs, _⟩ := selset_step s d sel env.parent hg
        have hinit : ({ compared := (overlappingFieldsCanBeMerged.init : MergeRuleState).compared, visited := [], stuck := false, guardHit := false } : MState) = {} := rfl
        simp only [overlappingFieldsCanBeMerged, mergeChk]
        simp only [hcs]
        rfl
      | _ => rfl
  have hfires : fires .overlappingFieldsCanBeMerged s d ↔ ∃ F, Vis s d F ∧ WBad s F := by
    unfold fires errsOf
    simp only [ruleOf]
    rw [runOn_const overlappingFieldsCanBeMerged s d (mergeChk s d) _ hstep]
    have hfin : overlappingFieldsCanBeMerged.finish s d overlappingFieldsCanBeMerged.init = [] := rfl
    rw [hfin, List.append_nil, flatMap_ne_nil_iff]
    constructor
    · rintro ⟨⟨ev, env⟩, hm, hne⟩
      cases ev with
      | leave n => simp [mergeChk] at hne
      | enter n =>
        cases n with
        | selectionSet sel =>
          obtain ⟨_, hg, _⟩ := hssc sel env hm
          obtain ⟨cs, hcs, hiff⟩ := selset_step s d sel env.parent hg
          simp only [mergeChk, hcs, ne_eq, List.map_eq_nil_iff] at hne
          refine ⟨_, ⟨sel, env, hm, rfl⟩, ?_⟩
          exact Classical.byContradiction fun hw => hne (hiff.2 hw)
        | _ => simp [mergeChk] at hne
    · rintro ⟨F, ⟨sel, env, hm, rfl⟩, hw⟩
      obtain ⟨_, hg, _⟩ := hssc sel env hm
      obtain ⟨cs, hcs, hiff⟩ := selset_step s d sel env.parent hg
      refine ⟨(.enter (.selectionSet sel), env), hm, ?_⟩
      simp only [mergeChk, hcs, ne_eq, List.map_eq_nil_iff]
      exact fun hnil => (hiff.1 hnil) hw
  rw [hfires]
  -- the spec, on the same visited lists
  have hN : docDepth d + 2 ≤ nestFuelOf d := by
    unfold nestFuelOf
    have : docDepth d + 1 ≤ (docDepth d + 1) * (d.fragments.length + 2) := Nat.le_mul_of_pos_right _ (by omega)
    omega
  have hvisF : ∀ sel env, (Ev.enter (.selectionSet sel), env) ∈ walkOf s d →
      specFields s d (spreadFuelOf d) env.parent sel = specFieldsWith s (fun _ => []) env.parent sel ∧
      ∀ a ∈ specFieldsWith s (fun _ => []) env.parent sel, depOf a ≤ docDepth d ∧ ffOf a := by
    intro sel env hm
    obtain ⟨_, hg, _⟩ := hssc sel env hm
    refine ⟨specFieldsWith_ff s _ _ _ _ hg.1, fun a ha => ?_⟩
    obtain ⟨h1, h2⟩ := mem_specSels_dep s _ sel env.parent a hg.1 ha
    exact ⟨by have := hg.2.2; omega, h2⟩
  unfold MergeViolated
  constructor
  · rintro ⟨F, ⟨sel, env, hm, rfl⟩, hw⟩
    obtain ⟨he, hF⟩ := hvisF sel env hm
    exact ⟨sel, env, hm, by rw [he]; exact W_to_cm s d _ _ (docDepth d) _ hF hN hw⟩
  · rintro ⟨sel, env, hm, hcm⟩
    obtain ⟨he, hF⟩ := hvisF sel env hm
    rw [he] at hcm
    obtain ⟨F', hd, hw⟩ := cm_to_W s d _ _ (docDepth d) _ hF hcm
    have hne : F' ≠ [] := by
      intro h; subst h; exact hw List.Pairwise.nil
    exact ⟨F', vis_desc s d hssc hd ⟨sel, env, hm, rfl⟩ hne, hw⟩

/-- `MergeAgrees` (the hypothesis of C01/C02) holds on spread-free documents -/
theorem mergeAgrees_spreadFree (s : Schema) (d : Document) (hq : s.queryType.isSome = true)
    (hsf : SpreadFree d) (htc : TcKnown s d) : C01.MergeAgrees s d := merge_iff_spreadFree s d hq hsf htc

/-- C01 ∧ C02 without the extra hypothesis, on spread-free documents -/
theorem accepted_iff_valid_spreadFree (s : Schema) (d : Document) (hs : C01.SchemaOk s) (hd : C01.DocOk d)
    (hsf : SpreadFree d) (htc : TcKnown s d) :
    validate s d Gen.defaultPlan = some [] ↔ ∀ r, ¬ C01.Violates r s d :=
  C01.accepted_iff_valid_partial s d hs hd (mergeAgrees_spreadFree s d hs.queryRoot hsf htc)

/-- the rule's recursion ends on spread-free documents: its state is never `stuck` -/
theorem merge_terminates_spreadFree (s : Schema) (d : Document) (hq : s.queryType.isSome = true)
    (hsf : SpreadFree d) (htc : TcKnown s d) : (C03.mergeFinal s d).stuck = false := by
  have hssc := ssc_walkOf s d hq hsf htc
  unfold C03.mergeFinal
  have key : ∀ (tr : Trace) (errs : List Err), (∀ e ∈ tr, e ∈ walkOf s d) →
      (tr.foldl (overlappingFieldsCanBeMerged.step s d) (overlappingFieldsCanBeMerged.init, errs)).1 = overlappingFieldsCanBeMerged.init := by
    intro tr
    induction tr with
    | nil => intro _ _; rfl
    | cons e tr ih =>
      intro errs h
      rw [List.foldl_cons]
      have he : (overlappingFieldsCanBeMerged.step s d (overlappingFieldsCanBeMerged.init, errs) e).1 = overlappingFieldsCanBeMerged.init := by
        obtain ⟨ev, env⟩ := e
        cases ev with
        | leave n => rfl
        | enter n =>
          cases n with
          | selectionSet sel =>
            obtain ⟨_, hg, _⟩ := hssc sel env (h _ (by simp))
            obtain ⟨cs, hcs, _⟩ := selset_step s d sel env.parent hg
            simp only [Rule.step, overlappingFieldsCanBeMerged]
            have : conflictsWithinSelectionSet s d (mergeFuel d) env.parent sel
                { compared := ([] : PairSet), visited := [], stuck := false, guardHit := false } = (cs, {}) := hcs
            simp only [this]
            rfl
          | _ => rfl
      have hpair : overlappingFieldsCanBeMerged.step s d (overlappingFieldsCanBeMerged.init, errs) e
          = (overlappingFieldsCanBeMerged.init, (overlappingFieldsCanBeMerged.step s d (overlappingFieldsCanBeMerged.init, errs) e).2) :=
        Prod.ext he rfl
      rw [hpair]
      exact ih _ (fun x hx => h x (by simp [hx]))
  rw [key (walkOf s d) [] (fun _ h => h)]
  rfl

end Gql.C05

namespace Gql.C05
open Gql.Spec

/-- the hypotheses are met by the spread-free example documents of `Thm/C05.lean` -/
example : SpreadFree [q [fld none 20 [fld (some 44) 24 [], fld (some 44) 26 []]]] ∧
    TcKnown exSchema [q [fld none 20 [fld (some 44) 24 [], fld (some 44) 26 []]]] := by
  constructor <;> (intro x hx; simp at hx; subst hx; rfl)

end Gql.C05
