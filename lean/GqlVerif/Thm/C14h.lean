/-
  Thm/C14h.lean — PROPERTY C14, argument order (partial): every function of the model that judges a
  whole argument list - the merging rule's `sameArguments` (`is_same_arguments`), provided-required-
  arguments' `missingRequired` (`validate_arguments`), unique-argument-names' duplicate report and
  known-argument-names' per-argument check - gives the same verdict for every permutation of the
  list.  For `sameArguments` this needs the second list to have unique names (with a duplicated name
  `find` takes the first match, which a permutation can change - the same phenomenon as F18); the others
  need nothing.  What is NOT proved here is the lifting through the walk to `validate` for the rules
  that see arguments one callback at a time (values-of-correct-type, the variable rules): that part
  of the argument-permutation rewrite is explored by the metamorphic run.
-/
import GqlVerif.Lemmas.SchemaPerm
import GqlVerif.Thm.C05
import GqlVerif.Thm.C09
namespace Gql.C14
open Gql.Spec

/-- **the merging rule's argument comparison does not depend on the order of either list** -/
theorem sameArguments_perm {a a' b b' : List Arg} (ha : a.Perm a') (hb : b.Perm b') (hn : (b.map (·.1)).Nodup) :
    sameArguments a b = sameArguments a' b' := by
  have hf : ∀ p : Arg, b.find? (fun q => p.1 == q.1) = b'.find? (fun q => p.1 == q.1) := by
    intro p
    have h := find?_perm_of_nodup (fun q : Arg => q.1) hb hn p.1
    have e : (fun q : Arg => p.1 == q.1) = (fun q : Arg => q.1 == p.1) := by
      funext q
      cases h1 : (p.1 == q.1) <;> cases h2 : (q.1 == p.1) <;> try rfl
      · exact absurd (beq_iff_eq.1 h2).symm (beq_eq_false_iff_ne.1 h1)
      · exact absurd (beq_iff_eq.1 h1).symm (beq_eq_false_iff_ne.1 h2)
    rw [e]; exact h
  unfold sameArguments
  rw [ha.length_eq, hb.length_eq]
  congr 1
  rw [ha.all_eq]
  congr 1
  funext p; rw [hf p]

/-- the same for the specification's `identicalArguments` -/
theorem identicalArguments_perm {a a' b b' : List Arg} (ha : a.Perm a') (hb : b.Perm b') (hn : (b.map (·.1)).Nodup) :
    identicalArguments a b = identicalArguments a' b' := by
  rw [← C05.sameArguments_eq, ← C05.sameArguments_eq]; exact sameArguments_perm ha hb hn

/-- **provided-required-arguments reports the same missing arguments, in the same order** -/
theorem missingRequired_perm {used used' : List Arg} (h : used.Perm used') (defs : List InputValueDef) :
    missingRequired used defs = missingRequired used' defs := by
  unfold missingRequired
  congr 1; funext d; rw [h.any_eq]

/-- **known-argument-names reports the same errors up to order** -/
theorem kaArgCheck_perm {args args' : List Arg} (h : args.Perm args') (slot : KaSlot) :
    (args.flatMap (kaArgCheck slot)).Perm (args'.flatMap (kaArgCheck slot)) :=
  h.flatMap_right _

theorem kaArgCheck_nil_perm {args args' : List Arg} (h : args.Perm args') (slot : KaSlot) :
    args.flatMap (kaArgCheck slot) = [] ↔ args'.flatMap (kaArgCheck slot) = [] := by
  constructor
  · intro e; exact List.perm_nil.1 (e ▸ (kaArgCheck_perm h slot).symm)
  · intro e; exact List.perm_nil.1 (e ▸ kaArgCheck_perm h slot)

/-- **unique-argument-names reports for one order iff it reports for the other** -/
theorem duplicateArgErrors_nil_perm {args args' : List Arg} (h : args.Perm args') (p p' : Pos) :
    duplicateArgErrors p args = [] ↔ duplicateArgErrors p' args' = [] := by
  have hm := h.map (·.1)
  have key : ∀ l : List Name, dupNames l = [] ↔ l.Nodup := fun l => by
    have := C09.dupNames_ne_nil l
    constructor
    · intro e; exact Classical.byContradiction fun hn => (this.2 hn) e
    · intro hn; exact Classical.byContradiction fun e => (this.1 e) hn
  simp only [duplicateArgErrors, List.map_eq_nil_iff]
  rw [key, key]; exact hm.nodup_iff

/-- non-vacuity: two orders of three arguments -/
example : sameArguments [(1, .int 1), (2, .bool true), (3, .enum 9)] [(2, .bool true), (3, .enum 9), (1, .int 1)] = true := by decide

end Gql.C14
