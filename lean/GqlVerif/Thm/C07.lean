/-
  Thm/C07.lean — PROPERTY C07: the five variable rules fire exactly when their spec condition is
  violated within some operation.  (`variables in allowed position`: proved for the condition
  without the allowance for locations that declare a default value — the code does not implement
  that allowance, see `vip_rejects_allowed_usage`.)
-/
import GqlVerif.Lemmas.CollectorFinal
import GqlVerif.Lemmas.FragRules
import GqlVerif.Thm.C18
import GqlVerif.Thm.C09
import GqlVerif.Thm.C13
namespace Gql.C07
open Gql.Spec

theorem argVars_ok : ItemsOk argVars where
  defLevel := fun e h => by
    obtain ⟨ev, sn⟩ := e
    cases ev with
    | enter n => cases n <;> first | rfl | (simp [Ev.node, Node.isDefinitionLevel] at h)
    | leave n => rfl
  spread := fun _ _ => rfl
  varDef := fun _ _ => rfl

theorem varUsage_ok : ItemsOk varUsage where
  defLevel := fun e h => by
    obtain ⟨ev, sn⟩ := e
    cases ev with
    | enter n => cases n <;> first | rfl | (simp [Ev.node, Node.isDefinitionLevel] at h) | (simp [varUsage])
    | leave n => simp [varUsage]
  spread := fun _ _ => by simp [varUsage]
  varDef := fun _ _ => by simp [varUsage]

theorem filter_ne_nil {α : Type} (p : α → Bool) (l : List α) : l.filter p ≠ [] ↔ ∃ x ∈ l, p x = true := by
  induction l with
  | nil => simp
  | cons a l ih =>
    by_cases h : p a = true
    · simp [List.filter_cons, h]
    · simp only [List.filter_cons, h, Bool.false_eq_true, if_false, ih, List.mem_cons, exists_eq_or_imp, false_and, false_or]

theorem mem_definedNames (defs : List VarDef) (v : Name) : v ∈ definedNames defs ↔ ∃ vd ∈ defs, vd.name = v := by
  simp [definedNames]

/-- 'no unused variables' reports iff some operation defines a variable that neither it nor any
    fragment in its scope uses -/
theorem noUnusedVariables_iff (s : Schema) (d : Document) (hq : s.queryType.isSome = true) :
    fires .noUnusedVariables s d ↔ UnusedVariable s d := by
  unfold fires errsOf
  simp only [ruleOf, noUnusedVariables]
  rw [collRule_run argVars argVars_ok _ s d hq]
  unfold unusedReport UnusedVariable
  rw [flatMap_ne_nil_iff]
  constructor
  · rintro ⟨p, hp, hne⟩
    obtain ⟨o, ho, hvars, hx⟩ := entry_items argVars argVars_ok s d hq p hp
    rw [ne_eq, List.map_eq_nil_iff, ← ne_eq, filter_ne_nil] at hne
    obtain ⟨v, hv, hnot⟩ := hne
    obtain ⟨vd, hvd, rfl⟩ := (mem_definedNames p.2 v).1 hv
    refine ⟨o, ho, vd, by rw [← hvars]; exact hvd, fun hused => ?_⟩
    have : vd.name ∈ (finalColl argVars s d).itemsFrom p.1 := (hx vd.name).2 hused
    simp [this] at hnot
  · rintro ⟨o, ho, vd, hvd, hunused⟩
    obtain ⟨p, hp, hvars, hx⟩ := entry_of_op argVars argVars_ok s d hq o ho
    refine ⟨p, hp, ?_⟩
    rw [ne_eq, List.map_eq_nil_iff, ← ne_eq, filter_ne_nil]
    refine ⟨vd.name, (mem_definedNames p.2 vd.name).2 ⟨vd, by rw [hvars]; exact hvd, rfl⟩, ?_⟩
    have : vd.name ∉ (finalColl argVars s d).itemsFrom p.1 := fun h => hunused ((hx vd.name).1 h)
    simp [this]

/-- 'no undefined variables' reports iff some operation, or a fragment in its scope, uses a
    variable the operation does not define -/
theorem noUndefinedVariables_iff (s : Schema) (d : Document) (hq : s.queryType.isSome = true) :
    fires .noUndefinedVariables s d ↔ UndefinedVariable s d := by
  unfold fires errsOf
  simp only [ruleOf, noUndefinedVariables]
  rw [collRule_run argVars argVars_ok _ s d hq]
  unfold undefinedReport UndefinedVariable
  rw [flatMap_ne_nil_iff]
  constructor
  · rintro ⟨p, hp, hne⟩
    obtain ⟨o, ho, hvars, hx⟩ := entry_items argVars argVars_ok s d hq p hp
    rw [ne_eq, List.map_eq_nil_iff, C09.eraseDups_eq_nil, ← ne_eq, filter_ne_nil] at hne
    obtain ⟨v, hv, hnot⟩ := hne
    refine ⟨o, ho, v, (hx v).1 hv, fun vd hvd hname => ?_⟩
    have : v ∈ definedNames p.2 := (mem_definedNames p.2 v).2 ⟨vd, by rw [hvars]; exact hvd, hname⟩
    simp [this] at hnot
  · rintro ⟨o, ho, v, hused, hundef⟩
    obtain ⟨p, hp, hvars, hx⟩ := entry_of_op argVars argVars_ok s d hq o ho
    refine ⟨p, hp, ?_⟩
    rw [ne_eq, List.map_eq_nil_iff, C09.eraseDups_eq_nil, ← ne_eq, filter_ne_nil]
    refine ⟨v, (hx v).2 hused, ?_⟩
    have : v ∉ definedNames p.2 := fun h => by
      obtain ⟨vd, hvd, hname⟩ := (mem_definedNames p.2 v).1 h
      exact hundef vd (by rw [← hvars]; exact hvd) hname
    simp [this]

theorem vipCheck_ne_nil (s : Schema) (defs : List VarDef) (u : Name × Ty) :
    vipCheck s defs u ≠ [] ↔
      ∃ vd, defs.find? (fun vd => vd.name == u.1) = some vd ∧ ¬ Subtype s (effectiveVarType vd) u.2 := by
  unfold vipCheck
  cases hf : defs.find? (fun vd => vd.name == u.1) with
  | none => simp
  | some vd =>
    simp only [Option.some.injEq, exists_eq_left']
    rw [← C18.isSubtype_iff]
    cases s.isSubtype (effectiveVarType vd) u.2 <;> simp

/-- 'variables in allowed position' reports iff some variable usage of an operation (in it or in a
    fragment in its scope) expects a type the variable's (effective) type is not a subtype of.
    PARTIAL with respect to the property: locations that declare a default value get no
    allowance (see below). -/
theorem variablesInAllowedPosition_iff_partial (s : Schema) (d : Document) (hq : s.queryType.isSome = true) :
    fires .variablesInAllowedPosition s d ↔ BadVariablePosition s d := by
  unfold fires errsOf
  simp only [ruleOf, variablesInAllowedPosition]
  rw [collRule_run varUsage varUsage_ok _ s d hq]
  unfold vipReport BadVariablePosition
  rw [flatMap_ne_nil_iff]
  constructor
  · rintro ⟨p, hp, hne⟩
    obtain ⟨o, ho, hvars, hx⟩ := entry_items varUsage varUsage_ok s d hq p hp
    obtain ⟨u, hu, hune⟩ := (flatMap_ne_nil_iff _ _).1 hne
    obtain ⟨vd, hvd, hsub⟩ := (vipCheck_ne_nil s p.2 u).1 hune
    exact ⟨o, ho, u, (hx u).1 hu, vd, by rw [← hvars]; exact hvd, hsub⟩
  · rintro ⟨o, ho, u, hu, vd, hvd, hsub⟩
    obtain ⟨p, hp, hvars, hx⟩ := entry_of_op varUsage varUsage_ok s d hq o ho
    refine ⟨p, hp, (flatMap_ne_nil_iff _ _).2 ⟨u, (hx u).2 hu, ?_⟩⟩
    exact (vipCheck_ne_nil s p.2 u).2 ⟨vd, by rw [hvars]; exact hvd, hsub⟩

/-! ### variables are input types -/

theorem varDefs_definition (x : Definition) : (traverseDefinition x).filterMap varDef? = x.vars := by
  have : traverseDefinition x = defEnter x :: traverseBody x ++ [defLeave x] := by
    cases x <;> simp [traverseDefinition, traverseBody, defEnter, defLeave, List.append_assoc]
  rw [this]
  simp only [List.cons_append, List.filterMap_cons, List.filterMap_append, varDefs_body, List.filterMap_nil]
  cases x <;> simp [defEnter, defLeave, varDef?]

theorem varDefs_document (d : Document) : (traverseDocument d).filterMap varDef? = d.flatMap Definition.vars := by
  have hdefs : ∀ ds : List Definition, (traverseDefinitions ds).filterMap varDef? = ds.flatMap Definition.vars := by
    intro ds
    induction ds with
    | nil => rfl
    | cons x xs ih => simp only [traverseDefinitions, List.filterMap_append, varDefs_definition, ih, List.flatMap_cons]
  simp only [traverseDocument, List.cons_append, List.filterMap_cons, List.filterMap_append, hdefs, varDef?,
    List.filterMap_nil, List.append_nil]

theorem varDef?_eq_some (e : Ev) (v : VarDef) : varDef? e = some v ↔ e = .enter (.varDef v) := by
  cases e with
  | enter n => cases n <;> simp [varDef?]
  | leave n => simp [varDef?]

/-- variable definitions are met exactly for the operations' variables -/
theorem enter_varDef_in_walk (s : Schema) (d : Document) (hq : s.queryType.isSome = true) (v : VarDef) :
    (∃ env, (Ev.enter (.varDef v), env) ∈ walkOf s d) ↔ ∃ o ∈ d.operations, v ∈ o.vars := by
  have h := walkOf_events s d hq
  have h1 : (∃ env, (Ev.enter (.varDef v), env) ∈ walkOf s d) ↔ Ev.enter (.varDef v) ∈ (walkOf s d).map Prod.fst := by
    simp [List.mem_map]
  have h2 : Ev.enter (.varDef v) ∈ traverseDocument d ↔ v ∈ (traverseDocument d).filterMap varDef? := by
    simp only [List.mem_filterMap, varDef?_eq_some]
    exact ⟨fun h => ⟨_, h, rfl⟩, fun ⟨e, he, heq⟩ => heq ▸ he⟩
  rw [h1, h, h2, varDefs_document]
  simp only [List.mem_flatMap]
  constructor
  · rintro ⟨x, hx, hv⟩
    cases x with
    | op o => exact ⟨o, (mem_operations_iff d o).2 hx, hv⟩
    | frag f => simp [Definition.vars] at hv
  · rintro ⟨o, ho, hv⟩
    exact ⟨.op o, (mem_operations_iff d o).1 ho, hv⟩

/-- 'variables are input types' reports iff some variable's type is declared and is not an input type -/
theorem variablesAreInputTypes_iff (s : Schema) (d : Document) (hq : s.queryType.isSome = true) :
    fires .variablesAreInputTypes s d ↔ NonInputVariable s d := by
  unfold fires errsOf NonInputVariable
  simp only [ruleOf, variablesAreInputTypes]
  rw [stateless_fires_iff]
  constructor
  · rintro ⟨⟨ev, env⟩, hmem, hne⟩
    cases ev with
    | leave n => simp at hne
    | enter n =>
      cases n with
      | varDef v =>
        obtain ⟨o, ho, hv⟩ := (enter_varDef_in_walk s d hq v).1 ⟨env, hmem⟩
        cases ht : s.typeByName v.ty.inner with
        | none => simp [ht] at hne
        | some t =>
          cases hi : t.isInput with
          | true => simp [ht, hi] at hne
          | false => exact ⟨o, ho, v, hv, t, ht, hi⟩
      | _ => simp at hne
  · rintro ⟨o, ho, v, hv, t, ht, hi⟩
    obtain ⟨env, hmem⟩ := (enter_varDef_in_walk s d hq v).2 ⟨o, ho, hv⟩
    exact ⟨(.enter (.varDef v), env), hmem, by simp [ht, hi]⟩

/-! ### unique variable names -/

abbrev UvnAcc := List (Name × Pos) × List Err

/-- `none`: an operation is entered; `some v`: a variable definition -/
def uev : Ev → Option (Option VarDef)
  | .enter (.operation _) => some none
  | .enter (.varDef v) => some (some v)
  | _ => none

def uvnG (acc : UvnAcc) : Option VarDef → UvnAcc
  | none => ([], acc.2)
  | some v =>
    (match alGet acc.1 v.name with
     | some p => (acc.1, acc.2 ++ [⟨.uniqueVariableNames, [p, v.pos], .uniqueVariable v.name⟩])
     | none => (acc.1 ++ [(v.name, v.pos)], acc.2))

def uvnEv (acc : UvnAcc) (e : Ev) : UvnAcc :=
  match uev e with
  | some b => uvnG acc b
  | none => acc

def uvnStepT (s : Schema) (d : Document) (acc : UvnAcc) (e : Ev × Snap) : UvnAcc :=
  uniqueVariableNames.step s d acc e

theorem uvn_step_eq (s : Schema) (d : Document) (acc : UvnAcc) (e : Ev × Snap) :
    uvnStepT s d acc e = uvnEv acc e.1 := by
  obtain ⟨ev, sn⟩ := e
  obtain ⟨found, errs⟩ := acc
  cases ev with
  | enter n =>
    cases n <;> simp [uvnStepT, Rule.step, uniqueVariableNames, uev, uvnG, uvnEv]
    next v => cases alGet found v.name <;> simp
  | leave n => cases n <;> simp [uvnStepT, Rule.step, uniqueVariableNames, uev, uvnG, uvnEv]

theorem foldl_proj {σ β : Type} (π : Ev → Option β) (step : σ → Ev → σ) (g : σ → β → σ)
    (h : ∀ st e, step st e = match π e with | some b => g st b | none => st) :
    ∀ (l : List Ev) (st : σ), l.foldl step st = (l.filterMap π).foldl g st
  | [], _ => rfl
  | e :: l, st => by
      rw [List.foldl_cons, h, List.filterMap_cons]
      cases hg : π e with
      | none => simpa using foldl_proj π step g h l st
      | some b => simpa using foldl_proj π step g h l (g st b)

theorem uev_low (e : Ev) (h : e.node.level ≤ 3) : uev e = none := by
  cases e with
  | enter n => cases n <;> first | rfl | (simp [Ev.node, Node.level] at h)
  | leave n => rfl

theorem uev_varDefs : ∀ vs : List VarDef, (traverseVarDefs vs).filterMap uev = vs.map some
  | [] => rfl
  | v :: vs => by
      simp only [traverseVarDefs, List.cons_append, List.filterMap_cons, List.filterMap_append, uev,
        List.filterMap_nil, List.nil_append, uev_varDefs vs, List.map_cons]
      cases v.default with
      | none => rfl
      | some dv =>
        simp only
        rw [((below_value dv).mono (by omega : 0 ≤ 3)).filterMap_nil uev uev_low]; rfl

def uevDef : Definition → List (Option VarDef)
  | .op o => none :: o.vars.map some
  | .frag _ => []

theorem uev_definition : ∀ x : Definition, (traverseDefinition x).filterMap uev = uevDef x
  | .op o => by
      simp only [traverseDefinition, List.cons_append, List.filterMap_cons, List.filterMap_append, uev, uev_varDefs,
        ((below_directives o.dirs).mono (by omega : 2 ≤ 3)).filterMap_nil uev uev_low,
        (below_selectionSet o.sel).filterMap_nil uev uev_low, List.nil_append, List.append_nil, List.filterMap_nil, uevDef]
  | .frag f => by
      simp only [traverseDefinition, List.cons_append, List.filterMap_cons, List.filterMap_append, uev,
        ((below_directives f.dirs).mono (by omega : 2 ≤ 3)).filterMap_nil uev uev_low,
        (below_selectionSet f.sel).filterMap_nil uev uev_low, List.nil_append, List.append_nil, List.filterMap_nil, uevDef]

theorem uev_document (d : Document) : (traverseDocument d).filterMap uev = d.flatMap uevDef := by
  have hdefs : ∀ ds : List Definition, (traverseDefinitions ds).filterMap uev = ds.flatMap uevDef := by
    intro ds
    induction ds with
    | nil => rfl
    | cons x xs ih => simp only [traverseDefinitions, List.filterMap_append, uev_definition, ih, List.flatMap_cons]
  simp only [traverseDocument, List.cons_append, List.filterMap_cons, List.filterMap_append, hdefs, uev,
    List.filterMap_nil, List.append_nil]

/-- the variable definitions of one operation, checked against the names found so far -/
theorem uvn_vars : ∀ (vs : List VarDef) (found : List (Name × Pos)) (errs : List Err), (alKeys found).Nodup →
    ∃ new, ((vs.map some).foldl uvnG (found, errs)).2 = errs ++ new ∧
      (new ≠ [] ↔ ¬ (alKeys found ++ vs.map (·.name)).Nodup)
  | [], found, errs, hn => ⟨[], by simp, by simpa using hn⟩
  | v :: vs, found, errs, hn => by
      simp only [List.map_cons, List.foldl_cons]
      cases hg : alGet found v.name with
      | some p =>
        have hmem : v.name ∈ alKeys found := by
          rw [← any_key_iff_mem, ← alGet_isSome_iff_any, hg]; rfl
        have hstep : uvnG (found, errs) (some v) = (found, errs ++ [⟨.uniqueVariableNames, [p, v.pos], .uniqueVariable v.name⟩]) := by
          simp [uvnG, hg]
        rw [hstep]
        obtain ⟨new, he, _⟩ := uvn_vars vs found (errs ++ [⟨.uniqueVariableNames, [p, v.pos], .uniqueVariable v.name⟩]) hn
        refine ⟨[⟨.uniqueVariableNames, [p, v.pos], .uniqueVariable v.name⟩] ++ new, by rw [he]; simp, ?_⟩
        constructor
        · intro _ hnd
          have := (List.nodup_append.1 hnd).2.2 v.name hmem v.name (by simp)
          exact this rfl
        · intro _; simp
      | none =>
        have hnot : v.name ∉ alKeys found := by
          intro hmem
          rw [← any_key_iff_mem, ← alGet_isSome_iff_any, hg] at hmem
          cases hmem
        have hstep : uvnG (found, errs) (some v) = (found ++ [(v.name, v.pos)], errs) := by simp [uvnG, hg]
        rw [hstep]
        have hn' : (alKeys (found ++ [(v.name, v.pos)])).Nodup := by
          simp only [alKeys, List.map_append, List.map_cons, List.map_nil]
          rw [List.nodup_append]
          refine ⟨hn, by simp, ?_⟩
          intro a ha b hb
          simp only [List.mem_singleton] at hb
          subst hb
          intro hab; subst hab; exact hnot ha
        obtain ⟨new, he, hiff⟩ := uvn_vars vs (found ++ [(v.name, v.pos)]) errs hn'
        refine ⟨new, he, ?_⟩
        rw [hiff]
        simp [alKeys, List.append_assoc]

theorem uvn_defs : ∀ (ds : List Definition) (acc : UvnAcc),
    ∃ new, ((ds.flatMap uevDef).foldl uvnG acc).2 = acc.2 ++ new ∧
      (new ≠ [] ↔ ∃ o, Definition.op o ∈ ds ∧ ¬ (o.vars.map (·.name)).Nodup)
  | [], acc => ⟨[], by simp, by simp⟩
  | .frag f :: ds, acc => by
      obtain ⟨new, he, hiff⟩ := uvn_defs ds acc
      refine ⟨new, by simpa [uevDef] using he, ?_⟩
      rw [hiff]; simp
  | .op o :: ds, acc => by
      simp only [List.flatMap_cons, uevDef, List.cons_append, List.foldl_cons, List.foldl_append]
      have hreset : uvnG acc none = ([], acc.2) := rfl
      rw [hreset]
      obtain ⟨new1, he1, hiff1⟩ := uvn_vars o.vars [] acc.2 (by simp [alKeys])
      obtain ⟨new2, he2, hiff2⟩ := uvn_defs ds ((o.vars.map some).foldl uvnG ([], acc.2))
      refine ⟨new1 ++ new2, by rw [he2, he1, List.append_assoc], ?_⟩
      simp only [alKeys, List.map_nil, List.nil_append] at hiff1
      constructor
      · intro hne
        by_cases h1 : new1 = []
        · subst h1
          obtain ⟨o', ho', hd⟩ := hiff2.1 (by simpa using hne)
          exact ⟨o', by simp [ho'], hd⟩
        · exact ⟨o, by simp, hiff1.1 h1⟩
      · rintro ⟨o', ho', hd⟩
        simp only [List.mem_cons, Definition.op.injEq] at ho'
        rcases ho' with rfl | ho'
        · have := hiff1.2 hd
          intro h; exact this (List.append_eq_nil_iff.1 h).1
        · have := hiff2.2 ⟨o', ho', hd⟩
          intro h; exact this (List.append_eq_nil_iff.1 h).2

/-- 'unique variable names' reports iff some operation defines two variables of one name -/
theorem uniqueVariableNames_iff (s : Schema) (d : Document) (hq : s.queryType.isSome = true) :
    fires .uniqueVariableNames s d ↔ DuplicateVariable d := by
  unfold fires errsOf DuplicateVariable
  have hrun : (ruleOf .uniqueVariableNames).runOn s d (walkOf s d)
      = ((walkOf s d).foldl (uvnStepT s d) ([], [])).2 := by
    show ((walkOf s d).foldl (uvnStepT s d) ([], [])).2 ++ [] = _
    simp
  rw [hrun, foldl_map_fst (uvnStepT s d) uvnEv (fun acc e => uvn_step_eq s d acc e),
    foldl_proj uev uvnEv uvnG (fun acc e => by unfold uvnEv; cases uev e <;> rfl), walkOf_events s d hq, uev_document]
  obtain ⟨new, he, hiff⟩ := uvn_defs d ([], [])
  rw [he, List.nil_append, hiff]
  constructor
  · rintro ⟨o, ho, hd⟩; exact ⟨o, (mem_operations_iff d o).2 ho, hd⟩
  · rintro ⟨o, ho, hd⟩; exact ⟨o, (mem_operations_iff d o).1 ho, hd⟩

/-! ### the spec's usage rule, and what the code leaves out (F13) -/

theorem subtype_nonNull_left_iff (s : Schema) (a b : Ty) (hb : b.isNonNull = false) :
    Subtype s (.nonNull a) b ↔ Subtype s a b := by
  constructor
  · intro h
    cases h with
    | refl => simp [Ty.isNonNull] at hb
    | nonNull _ => simp [Ty.isNonNull] at hb
    | strengthen _ h' => exact h'
  · exact .strengthen hb

theorem subtype_nonNull_both_iff (s : Schema) (a b : Ty) : Subtype s (.nonNull a) (.nonNull b) ↔ Subtype s a b := by
  constructor
  · intro h
    cases h with
    | refl => exact .refl _
    | nonNull h' => exact h'
    | strengthen hb _ => simp [Ty.isNonNull] at hb
  · exact .nonNull

theorem not_subtype_nullable_nonNull (s : Schema) (a b : Ty) (ha : a.isNonNull = false) : ¬ Subtype s a (.nonNull b) := by
  intro h
  cases h <;> simp [Ty.isNonNull] at ha

def HasNonNullDefault (vd : VarDef) : Prop := ∃ dv, vd.default = some dv ∧ dv ≠ .null

theorem effective_of_default {vd : VarDef} (hty : vd.ty.isNonNull = false) (hd : HasNonNullDefault vd) :
    effectiveVarType vd = .nonNull vd.ty := by
  obtain ⟨dv, hdv, hne⟩ := hd
  unfold effectiveVarType
  rw [hdv]
  cases h : vd.ty with
  | nonNull t => rw [h] at hty; simp [Ty.isNonNull] at hty
  | named n => cases dv <;> first | rfl | exact absurd rfl hne
  | list t => cases dv <;> first | rfl | exact absurd rfl hne

theorem effective_of_noDefault {vd : VarDef} (h : vd.ty.isNonNull = true ∨ ¬ HasNonNullDefault vd) :
    effectiveVarType vd = vd.ty := by
  unfold effectiveVarType
  cases hd : vd.default with
  | none => rfl
  | some dv =>
    cases hty : vd.ty with
    | nonNull t => rfl
    | named n =>
      rcases h with h | h
      · rw [hty] at h; simp [Ty.isNonNull] at h
      · cases dv <;> first | rfl | exact absurd ⟨_, hd, by simp⟩ h
    | list t =>
      rcases h with h | h
      · rw [hty] at h; simp [Ty.isNonNull] at h
      · cases dv <;> first | rfl | exact absurd ⟨_, hd, by simp⟩ h

/-- at a location without default value, the code's test is the spec's IsVariableUsageAllowed -/
theorem allowed_noLocDefault_iff (s : Schema) (vd : VarDef) (locTy : Ty) :
    UsageAllowed s vd locTy false ↔ Subtype s (effectiveVarType vd) locTy := by
  by_cases hnn : vd.ty.isNonNull = true
  · rw [effective_of_noDefault (Or.inl hnn)]
    unfold UsageAllowed
    cases locTy <;> simp [hnn]
  · have hnn' : vd.ty.isNonNull = false := by simpa using hnn
    by_cases hd : HasNonNullDefault vd
    · rw [effective_of_default hnn' hd]
      cases locTy with
      | nonNull lt =>
        simp only [UsageAllowed, hnn', Bool.false_eq_true, if_false, or_false]
        rw [subtype_nonNull_both_iff]
        exact ⟨fun h => h.2, fun h => ⟨hd, h⟩⟩
      | named m => simp only [UsageAllowed]; rw [subtype_nonNull_left_iff _ _ _ rfl]
      | list m => simp only [UsageAllowed]; rw [subtype_nonNull_left_iff _ _ _ rfl]
    · rw [effective_of_noDefault (Or.inr hd)]
      cases locTy with
      | nonNull lt =>
        simp only [UsageAllowed, hnn', Bool.false_eq_true, if_false, or_false]
        constructor
        · intro h; exact absurd h.1 hd
        · intro h; exact absurd h (not_subtype_nullable_nonNull s _ _ hnn')
      | named m => simp only [UsageAllowed]
      | list m => simp only [UsageAllowed]

theorem codes_C07 (s : Schema) (d : Document) :
    (∀ e ∈ errsOf .uniqueVariableNames s d, e.code = .uniqueVariableNames) ∧
    (∀ e ∈ errsOf .variablesAreInputTypes s d, e.code = .variablesAreInputTypes) ∧
    (∀ e ∈ errsOf .noUndefinedVariables s d, e.code = .noUndefinedVariables) ∧
    (∀ e ∈ errsOf .noUnusedVariables s d, e.code = .noUnusedVariables) ∧
    (∀ e ∈ errsOf .variablesInAllowedPosition s d, e.code = .variablesInAllowedPosition) :=
  ⟨C13.codes s d _ _, C13.codes s d _ _, C13.codes s d _ _, C13.codes s d _ _, C13.codes s d _ _⟩

/-! Non-vacuity and regression witnesses (F12: list variable with default; F14: operations sharing
    a name; F13: the allowance the code does not make).
    `type Query { f(i: Int, r: Int!, d: Int! = 1, l: [Int], nl: [Int]!, s: String): Int }`
    ids: Query=0 Int=6 String=10 f=100 i=102 r=104 d=106 l=108 nl=110 s=112 x=120 y=122 A=130 B=132 F=140 -/
def exSchema : Schema :=
  [ .type (.object 0 [] [⟨100, [⟨102, .named 6, none⟩, ⟨104, .nonNull (.named 6), none⟩, ⟨106, .nonNull (.named 6), some (.int 1)⟩,
      ⟨108, .list (.named 6), none⟩, ⟨110, .nonNull (.list (.named 6)), none⟩, ⟨112, .named 10, none⟩], .named 6⟩]),
    .type (.scalar 6), .type (.scalar 10) ]
def fld (args : List Arg) : Selection := .field ⟨1, 1⟩ none 100 args [] []
def qry (name : Option Name) (vars : List VarDef) (sel : List Selection) : Definition :=
  .op ⟨.query, ⟨1, 1⟩, name, vars, [], sel⟩
def var (n : Name) (t : Ty) (dflt : Option Value) : VarDef := ⟨⟨1, 2⟩, n, t, dflt⟩

-- F14: query A { f(i: $x) } query A($x: Int) { f(i: 1) }
example : fires .noUndefinedVariables exSchema [qry (some 130) [] [fld [(102, .var 120)]], qry (some 130) [var 120 (.named 6) none] [fld [(102, .int 1)]]] := by decide
example : fires .noUnusedVariables exSchema [qry (some 130) [] [fld [(102, .var 120)]], qry (some 130) [var 120 (.named 6) none] [fld [(102, .int 1)]]] := by decide
-- a fragment shared by two operations, one of which does not define the variable
example : fires .noUndefinedVariables exSchema
    [qry (some 130) [var 120 (.named 6) none] [.spread ⟨1, 3⟩ 140 []], qry (some 132) [] [.spread ⟨1, 3⟩ 140 []],
     .frag ⟨⟨2, 1⟩, 140, 0, [], [fld [(102, .var 120)]]⟩] := by decide
example : ¬ fires .noUnusedVariables exSchema
    [qry (some 130) [var 120 (.named 6) none] [.spread ⟨1, 3⟩ 140 []], .frag ⟨⟨2, 1⟩, 140, 0, [], [fld [(108, .list [.var 120])]]⟩] := by decide
-- F12: query ($x: [Int] = [1]) { f(nl: $x) } is fine; without the default it is not
example : ¬ fires .variablesInAllowedPosition exSchema [qry none [var 120 (.list (.named 6)) (some (.list [.int 1]))] [fld [(110, .var 120)]]] := by decide
example : fires .variablesInAllowedPosition exSchema [qry none [var 120 (.list (.named 6)) none] [fld [(110, .var 120)]]] := by decide
example : fires .variablesInAllowedPosition exSchema [qry none [var 120 (.named 10) none] [fld [(108, .list [.var 120])]]] := by decide   -- String inside [Int]
example : fires .uniqueVariableNames exSchema [qry none [var 120 (.named 6) none, var 120 (.named 10) none] [fld []]] := by decide
example : fires .variablesAreInputTypes exSchema [qry none [var 120 (.named 0) none] [fld []]] := by decide

/-- **F13 (known finding).**  The spec allows a nullable variable at a non-null location that
    declares a default value (IsVariableUsageAllowed); the rule has no such allowance:
    `query ($x: Int) { f(d: $x) }` with `d: Int! = 1` is reported. -/
theorem vip_rejects_allowed_usage :
    fires .variablesInAllowedPosition exSchema [qry none [var 120 (.named 6) none] [fld [(106, .var 120)]]] ∧
    UsageAllowed exSchema (var 120 (.named 6) none) (.nonNull (.named 6)) true := by
  refine ⟨by decide, ?_⟩
  simp only [UsageAllowed, var, Ty.isNonNull, Bool.false_eq_true, if_false, or_true, true_and]
  exact .refl _

end Gql.C07
