/-
  Thm/C14d.lean — PROPERTY C14, permuting the selections within selection sets: for 23 of the 24
  rules (all but 'single field subscriptions'), which rules report is the same for a document and
  for the document with the selections of any of its selection sets reordered (`DocRel`,
  Lemmas/SelPerm.lean) - fields, fragment spreads and inline fragments permuted within the set they
  belong to, at every depth.  Proved on the spec side (each `Violates` predicate looks at the
  callbacks of the walk with their type environment, never at the order of siblings:
  `ev_doc_rel`) and transported by the iff theorems; the field-merging rule is
  `C05.merge_order_independent`.
-/
import GqlVerif.Lemmas.SelPermRules
import GqlVerif.Thm.C05d
namespace Gql.C14
open Gql.Spec

section
variable {s : Schema} {d d' : Document}

theorem inlineAt_rel (hq : s.queryType.isSome = true) (h : DocRel d d') (i : InlineNode) (env : Snap)
    (hi : InlineAt s d i env) : ∃ sel', SelsEq i.sel sel' ∧ InlineAt s d' { i with sel := sel' } env := by
  obtain ⟨ev', hr, hm⟩ := ev_doc_rel s hq h _ env hi
  cases hr with
  | enter hn =>
    cases hn with
    | same => exact ⟨i.sel, .refl _, hm⟩
    | inline _ hs => exact ⟨_, hs, hm⟩

theorem spreadAt_rel (hq : s.queryType.isSome = true) (h : DocRel d d') (sp : SpreadNode) (env : Snap)
    (hsp : SpreadAt s d sp env) : SpreadAt s d' sp env :=
  same_at_rel s hq h _ env (by intro f; simp) (by intro i; simp) (by intro x; simp) (by intro o; simp) (by intro f; simp) (by intro x; simp) hsp

theorem directiveAt_rel (hq : s.queryType.isSome = true) (h : DocRel d d') (dir : Directive) (hd : DirectiveAt s d dir) : DirectiveAt s d' dir := by
  obtain ⟨env, hm⟩ := hd
  exact ⟨env, same_at_rel s hq h _ env (by intro f; simp) (by intro i; simp) (by intro x; simp) (by intro o; simp) (by intro f; simp) (by intro x; simp) hm⟩

theorem varDefAt_rel (hq : s.queryType.isSome = true) (h : DocRel d d') (v : VarDef) (hv : VarDefAt s d v) : VarDefAt s d' v := by
  obtain ⟨env, hm⟩ := hv
  exact ⟨env, same_at_rel s hq h _ env (by intro f; simp) (by intro i; simp) (by intro x; simp) (by intro o; simp) (by intro f; simp) (by intro x; simp) hm⟩

theorem siteOf_flat (ev ev' : Ev) (env : Snap) (h : EvRel ev ev') : siteOf (ev, env) = siteOf (ev', env) := by
  cases h with
  | enter hn => cases hn <;> rfl
  | leave hn => cases hn <;> rfl

theorem literalSites_rel (hq : s.queryType.isSome = true) (h : DocRel d d') (p : Option Ty × Value)
    (hp : p ∈ C08.literalSites s d) : p ∈ C08.literalSites s d' := by
  unfold C08.literalSites litSites at hp ⊢
  obtain ⟨⟨ev, env⟩, he, hs⟩ := List.mem_filterMap.1 hp
  obtain ⟨ev', hr, hm⟩ := ev_doc_rel s hq h ev env he
  exact List.mem_filterMap.2 ⟨(ev', env), hm, by rw [← siteOf_flat ev ev' env hr]; exact hs⟩

theorem selsEq_nil_iff {a b : List Selection} (h : SelsEq a b) : a = [] ↔ b = [] := by
  induction h with
  | refl l => exact Iff.rfl
  | swap x y l => simp
  | cons x _ _ => simp
  | field pos alias name args dirs l _ _ => simp
  | inline pos tc dirs l _ _ => simp
  | trans _ _ ih1 ih2 => exact ih1.trans ih2

theorem mem_frag_names {d : Document} (hfn : d.fragments.map (·.name) = d'.fragments.map (·.name)) (n : Name) :
    (∃ f ∈ d.fragments, f.name = n) ↔ (∃ f ∈ d'.fragments, f.name = n) := by
  have key : ∀ l : List FragDef, (∃ f ∈ l, f.name = n) ↔ n ∈ l.map (·.name) := by
    intro l; simp only [List.mem_map]
  rw [key, key, hfn]

/-- one direction, for every condition but the two excluded ones; the other follows by symmetry -/
theorem violates_selrel_mp (hq : s.queryType.isSome = true) (h : DocRel d d') (r : RuleId)
    (h1 : r ≠ .overlappingFieldsCanBeMerged) (h2 : r ≠ .singleFieldSubscriptions)
    (hv : C01.Violates r s d) : C01.Violates r s d' := by
  have hon := opNames_rel h
  have hfn := fragNames_rel h
  cases r <;> simp only [C01.Violates] at hv ⊢
  · -- unique operation names
    unfold DuplicateOperationName at hv ⊢
    rw [← filterMap_of_map (fun o : Operation => o.name) hon]
    exact hv
  · -- lone anonymous operation
    obtain ⟨⟨o, ho, hnone⟩, hl⟩ := hv
    obtain ⟨sel', _, hm⟩ := opsRel h o ho
    have hlen : d'.operations.length = d.operations.length := by
      have := congrArg List.length hon; simp only [List.length_map] at this; exact this.symm
    exact ⟨⟨_, hm, hnone⟩, by rw [hlen]; exact hl⟩
  · exact absurd rfl h2
  · -- known type names
    rcases hv with ⟨f, hf, hk⟩ | ⟨i, env, c, hi, htc, hk⟩ | ⟨v, hva, hk⟩
    · obtain ⟨sel', _, hm⟩ := fragsRel h f hf
      exact Or.inl ⟨_, hm, hk⟩
    · obtain ⟨sel', _, hi'⟩ := inlineAt_rel hq h i env hi
      exact Or.inr (Or.inl ⟨_, env, c, hi', htc, hk⟩)
    · exact Or.inr (Or.inr ⟨v, varDefAt_rel hq h v hva, hk⟩)
  · -- fragments on composite types
    rcases hv with ⟨f, hf, t, ht, hc⟩ | ⟨i, env, c, t, hi, htc, ht, hc⟩
    · obtain ⟨sel', _, hm⟩ := fragsRel h f hf
      exact Or.inl ⟨_, hm, t, ht, hc⟩
    · obtain ⟨sel', _, hi'⟩ := inlineAt_rel hq h i env hi
      exact Or.inr ⟨_, env, c, t, hi', htc, ht, hc⟩
  · -- variables are input types
    obtain ⟨o, ho, v, hv', t, ht, hi⟩ := hv
    obtain ⟨sel', _, hm⟩ := opsRel h o ho
    exact ⟨_, hm, v, hv', t, ht, hi⟩
  · -- leaf field selections
    obtain ⟨f, env, t, hf, e1, e2, e3⟩ := hv
    obtain ⟨sel', hs, hf'⟩ := fieldAt_rel s hq h f env hf
    refine ⟨_, env, t, hf', e1, e2, ?_⟩
    rcases e3 with ⟨a, b⟩ | ⟨a, b⟩
    · exact Or.inl ⟨a, fun e => b ((selsEq_nil_iff hs).2 e)⟩
    · exact Or.inr ⟨a, (selsEq_nil_iff hs).1 b⟩
  · -- fields on correct type
    rcases hv with ⟨f, env, P, hf, e1, e2, e3⟩ | ⟨o, ho, hk, hne⟩
    · obtain ⟨sel', _, hf'⟩ := fieldAt_rel s hq h f env hf
      exact Or.inl ⟨_, env, P, hf', e1, e2, e3⟩
    · obtain ⟨sel', hs, hm⟩ := opsRel h o ho
      exact Or.inr ⟨_, hm, hk, (rootTypename_rel hs).1 hne⟩
  · -- unique fragment names
    unfold DuplicateFragmentName at hv ⊢
    rw [← hfn]; exact hv
  · -- known fragment names
    obtain ⟨sp, env, hsp, hall⟩ := hv
    refine ⟨sp, env, spreadAt_rel hq h sp env hsp, ?_⟩
    intro f hf hname
    obtain ⟨g, hg, hgn⟩ := (mem_frag_names hfn sp.name).2 ⟨f, hf, hname⟩
    exact hall g hg hgn
  · -- no unused fragments
    obtain ⟨f, hf, hnu⟩ := hv
    obtain ⟨sel', _, hm⟩ := fragsRel h f hf
    refine ⟨_, hm, fun hu => hnu ?_⟩
    obtain ⟨o, ho, sp, hsp, hr'⟩ := hu
    obtain ⟨osel, hos, hom⟩ := opsRel h.symm o ho
    exact ⟨_, hom, sp, (recSpreads_rel hos sp).1 hsp, reachable_congr (mem_spreadsOf_rel h.symm) hr'⟩
  · exact absurd rfl h1
  · -- no fragment cycles
    exact fragmentCycle_rel h hv
  · -- possible fragment spreads
    rcases hv with ⟨i, env, ft, pt, hi, e1, e2, e3, e4, e5⟩ | ⟨sp, env, frag, ft, pt, hsp, hf, e1, e2, e3, e4, e5⟩
    · obtain ⟨sel', _, hi'⟩ := inlineAt_rel hq h i env hi
      exact Or.inl ⟨_, env, ft, pt, hi', e1, e2, e3, e4, e5⟩
    · have hl := fragLook h sp.name
      rw [hf] at hl
      generalize hv' : d'.fragByName sp.name = v at hl
      cases hl with
      | some _ hs => exact Or.inr ⟨sp, env, _, ft, pt, spreadAt_rel hq h sp env hsp, hv', e1, e2, e3, e4, e5⟩
  · -- no unused variables
    obtain ⟨o, ho, vd, hvd, hnu⟩ := hv
    obtain ⟨sel', hs, hm⟩ := opsRel h o ho
    exact ⟨_, hm, vd, hvd, fun hu => hnu (usedBy_rel_back s h o hs vd.name hu)⟩
  · -- no undefined variables
    obtain ⟨o, ho, v, hu, hund⟩ := hv
    obtain ⟨sel', hs, hm⟩ := opsRel h o ho
    exact ⟨_, hm, v, usedBy_rel s h o hs v hu, hund⟩
  · -- known argument names
    rcases hv with ⟨f, env, P, fd, a, hf, e1, e2, e3, e4⟩ | ⟨dir, dd, a, hda, e1, e2, e3⟩
    · obtain ⟨sel', _, hf'⟩ := fieldAt_rel s hq h f env hf
      exact Or.inl ⟨_, env, P, fd, a, hf', e1, e2, e3, e4⟩
    · exact Or.inr ⟨dir, dd, a, directiveAt_rel hq h dir hda, e1, e2, e3⟩
  · -- unique argument names
    rcases hv with ⟨f, env, hf, hd⟩ | ⟨dir, hda, hd⟩
    · obtain ⟨sel', _, hf'⟩ := fieldAt_rel s hq h f env hf
      exact Or.inl ⟨_, env, hf', hd⟩
    · exact Or.inr ⟨dir, directiveAt_rel hq h dir hda, hd⟩
  · -- unique variable names
    obtain ⟨o, ho, hd⟩ := hv
    obtain ⟨sel', _, hm⟩ := opsRel h o ho
    exact ⟨_, hm, hd⟩
  · -- provided required arguments
    rcases hv with ⟨f, env, P, fd, ad, hf, e1, e2, e3, e4, e5⟩ | ⟨dir, dd, ad, hda, e1, e2, e3, e4⟩
    · obtain ⟨sel', _, hf'⟩ := fieldAt_rel s hq h f env hf
      exact Or.inl ⟨_, env, P, fd, ad, hf', e1, e2, e3, e4, e5⟩
    · exact Or.inr ⟨dir, dd, ad, directiveAt_rel hq h dir hda, e1, e2, e3, e4⟩
  · -- known directives
    obtain ⟨p, hp, hk⟩ := hv
    exact ⟨p, (directivesAt_rel h p).1 hp, hk⟩
  · -- variables in allowed position
    obtain ⟨o, ho, u, hu, vd, hvd, hsub⟩ := hv
    obtain ⟨sel', hs, hm⟩ := opsRel h o ho
    exact ⟨_, hm, u, usageOf_rel s h o hs u hu, vd, hvd, hsub⟩
  · -- values of correct type
    obtain ⟨τ, v, hm, hnc⟩ := hv
    exact ⟨τ, v, literalSites_rel hq h _ hm, hnc⟩
  · -- unique directives per location
    obtain ⟨l, hl, hrest⟩ := hv
    exact ⟨l, (directiveLists_rel h l).1 hl, hrest⟩

theorem violates_selrel (hq : s.queryType.isSome = true) (h : DocRel d d') (r : RuleId)
    (h1 : r ≠ .overlappingFieldsCanBeMerged) (h2 : r ≠ .singleFieldSubscriptions) :
    C01.Violates r s d ↔ C01.Violates r s d' :=
  ⟨violates_selrel_mp hq h r h1 h2, violates_selrel_mp hq h.symm r h1 h2⟩

theorem docOk_selrel (h : DocRel d d') (hd : C01.DocOk d) : C01.DocOk d' := by
  intro o ho v hv
  obtain ⟨sel', _, hm⟩ := opsRel h.symm o ho
  exact hd _ hm v hv

theorem varTypesGood_selrel (h : DocRel d d') (hg : VarTypesGood s d) : VarTypesGood s d' := by
  intro o ho v hv
  obtain ⟨sel', _, hm⟩ := opsRel h.symm o ((mem_operations_iff d' o).2 ho)
  exact hg _ ((mem_operations_iff d _).1 hm) v hv

/-- **C14, selections.**  Which of the 23 rules other than 'single field subscriptions' report is the
    same for a document and for the document with the selections of its selection sets reordered. -/
theorem fires_selrel (hs : C01.SchemaOk s) (hd : C01.DocOk d) (h : DocRel d d')
    (hn : (d.fragments.map (·.name)).Nodup) (hao : AODoc d) (ht : TcKnown s d) (hac : ¬ FragmentCycle d) (r : RuleId)
    (h2 : r ≠ .singleFieldSubscriptions) : fires r s d ↔ fires r s d' := by
  have hq := hs.queryRoot
  by_cases h1 : r = .overlappingFieldsCanBeMerged
  · subst h1; exact C05.merge_order_independent s hq h hao ht hac
  have hd' := docOk_selrel h hd
  by_cases h3 : r = .noFragmentsCycle
  · subst h3
    have hn' : (d'.fragments.map (·.name)).Nodup := by rw [← fragNames_rel h]; exact hn
    rw [C06.noFragmentsCycle_iff s d hq hn, C06.noFragmentsCycle_iff s d' hq hn']
    exact violates_selrel hq h .noFragmentsCycle (by simp) (by simp)
  by_cases h4 : r = .valuesOfCorrectType
  · subst h4
    by_cases hg : VarTypesGood s d
    · rw [C08.valuesOfCorrectType_iff_wf s d hs.inputsClosed hs.argsGood hg,
        C08.valuesOfCorrectType_iff_wf s d' hs.inputsClosed hs.argsGood (varTypesGood_selrel h hg)]
      exact violates_selrel hq h .valuesOfCorrectType (by simp) (by simp)
    · unfold fires
      rw [C08.errs_eq, C08.errs_eq, flatMap_ne_nil_iff, flatMap_ne_nil_iff]
      constructor
      · rintro ⟨p, hp, hne⟩; exact ⟨p, literalSites_rel hq h p hp, hne⟩
      · rintro ⟨p, hp, hne⟩; exact ⟨p, literalSites_rel hq h.symm p hp, hne⟩
  rw [C01.fires_iff_violates_basic s d hs r h1 h3 h4, C01.fires_iff_violates_basic s d' hs r h1 h3 h4]
  exact violates_selrel hq h r h1 h2

end
end Gql.C14
