/-
  Thm/C14g.lean — PROPERTY C14, renaming operations: accept/reject, and which of 23 rules report,
  are the same for a document and for the document with its operations renamed (`DocRelN`: the name
  of any operation replaced), provided the renaming is consistent - anonymous operations stay
  anonymous, named ones stay named, different names stay different - which is what "consistently
  renaming to fresh names" guarantees; stated as the hypotheses `hanon` and `hdup` about the two
  lists of operation names.  (Nothing but 'unique operation names' and 'lone anonymous operation'
  looks at an operation's name.)
-/
import GqlVerif.Thm.C14f
namespace Gql.C14
open Gql.Spec

/-- `d'` is `d` with some operations renamed -/
inductive DocRelN : Document → Document → Prop
  | refl (d : Document) : DocRelN d d
  | op (o : Operation) (name' : Option Name) (l : Document) : DocRelN (.op o :: l) (.op { o with name := name' } :: l)
  | cons (x : Definition) {l l' : Document} : DocRelN l l' → DocRelN (x :: l) (x :: l')
  | trans {a b c : Document} : DocRelN a b → DocRelN b c → DocRelN a c

theorem DocRelN.symm {d d' : Document} (h : DocRelN d d') : DocRelN d' d := by
  induction h with
  | refl d => exact .refl d
  | op o n l =>
    have := DocRelN.op { o with name := n } o.name l
    exact this
  | cons x _ ih => exact .cons x ih
  | trans _ _ ih1 ih2 => exact .trans ih2 ih1

section
variable {s : Schema} {d d' : Document}

theorem fragmentsN (h : DocRelN d d') : d.fragments = d'.fragments := by
  induction h with
  | refl d => rfl
  | op o n l => simp only [Document.fragments]
  | cons x _ ih => cases x <;> simp only [Document.fragments, ih]
  | trans _ _ ih1 ih2 => exact ih1.trans ih2

theorem opsRelN (h : DocRelN d d') : ∀ o ∈ d.operations, ∃ n', ({ o with name := n' } : Operation) ∈ d'.operations := by
  induction h with
  | refl d => intro o ho; exact ⟨o.name, ho⟩
  | op o0 n l =>
    intro o ho
    simp only [Document.operations, List.mem_cons] at ho ⊢
    rcases ho with rfl | ho
    · exact ⟨n, Or.inl rfl⟩
    · exact ⟨o.name, Or.inr ho⟩
  | cons x _ ih =>
    intro o ho
    cases x with
    | op o0 =>
      simp only [Document.operations, List.mem_cons] at ho ⊢
      rcases ho with rfl | ho
      · exact ⟨o.name, Or.inl rfl⟩
      · obtain ⟨n', hm⟩ := ih o ho
        exact ⟨n', Or.inr hm⟩
    | frag f =>
      simp only [Document.operations] at ho ⊢
      exact ih o ho
  | trans _ _ ih1 ih2 =>
    intro o ho
    obtain ⟨n1, m1⟩ := ih1 o ho
    obtain ⟨n2, m2⟩ := ih2 _ m1
    exact ⟨n2, m2⟩

theorem opsLengthN (h : DocRelN d d') : d.operations.length = d'.operations.length := by
  induction h with
  | refl d => rfl
  | op o n l => simp only [Document.operations, List.length_cons]
  | cons x _ ih => cases x <;> simp only [Document.operations, List.length_cons, ih]
  | trans _ _ ih1 ih2 => exact ih1.trans ih2

theorem docDepthN (h : DocRelN d d') : docDepth d = docDepth d' := by
  induction h with
  | refl d => rfl
  | op o n l => simp only [docDepth, Definition.selections]
  | cons x _ ih => simp only [docDepth, ih]
  | trans _ _ ih1 ih2 => exact ih1.trans ih2

/-- the same callback, up to the name carried by an operation node -/
inductive EvRelN : Ev → Ev → Prop
  | same (e : Ev) : EvRelN e e
  | enterOp (o : Operation) (n : Option Name) : EvRelN (.enter (.operation o)) (.enter (.operation { o with name := n }))
  | leaveOp (o : Operation) (n : Option Name) : EvRelN (.leave (.operation o)) (.leave (.operation { o with name := n }))

theorem EvRelN.trans {a b c : Ev} (h1 : EvRelN a b) (h2 : EvRelN b c) : EvRelN a c := by
  cases h1 with
  | same => exact h2
  | enterOp o n =>
    cases h2 with
    | same => exact .enterOp o n
    | enterOp _ n2 => exact .enterOp o n2
  | leaveOp o n =>
    cases h2 with
    | same => exact .leaveOp o n
    | leaveOp _ n2 => exact .leaveOp o n2

theorem ev_defs_relN (h : DocRelN d d') :
    ∀ (ev : Ev) (env : Snap), (ev, env) ∈ d.flatMap (defTrace s) → ∃ ev', EvRelN ev ev' ∧ (ev', env) ∈ d'.flatMap (defTrace s) := by
  induction h with
  | refl d => intro ev env hm; exact ⟨ev, .same ev, hm⟩
  | op o n l =>
    intro ev env hm
    simp only [List.flatMap_cons, List.mem_append] at hm ⊢
    rcases hm with h | h
    · simp only [defTrace, walkDefinition] at h ⊢
      generalize rootTypeName s o.kind = r at h ⊢
      cases r with
      | none => simp at h
      | some tn =>
        simp only [Option.map_some, Option.getD_some, List.cons_append, List.mem_cons, List.mem_append, List.not_mem_nil, or_false, or_assoc] at h ⊢
        rcases h with h | h | h | h | h
        · obtain ⟨h1, h2⟩ := Prod.mk.inj h
          subst h1
          exact ⟨_, .enterOp o n, Or.inl (by rw [h2])⟩
        · exact ⟨ev, .same ev, Or.inr (Or.inl h)⟩
        · exact ⟨ev, .same ev, Or.inr (Or.inr (Or.inl h))⟩
        · exact ⟨ev, .same ev, Or.inr (Or.inr (Or.inr (Or.inl h)))⟩
        · obtain ⟨h1, h2⟩ := Prod.mk.inj h
          subst h1
          exact ⟨_, .leaveOp o n, Or.inr (Or.inr (Or.inr (Or.inr (Or.inl (by rw [h2])))))⟩
    · exact ⟨ev, .same ev, Or.inr h⟩
  | cons x _ ih =>
    intro ev env hm
    simp only [List.flatMap_cons, List.mem_append] at hm ⊢
    rcases hm with h | h
    · exact ⟨ev, .same ev, Or.inl h⟩
    · obtain ⟨ev', hr, hm'⟩ := ih ev env h
      exact ⟨ev', hr, Or.inr hm'⟩
  | trans _ _ ih1 ih2 =>
    intro ev env hm
    obtain ⟨ev1, hr1, hm1⟩ := ih1 ev env hm
    obtain ⟨ev2, hr2, hm2⟩ := ih2 ev1 env hm1
    exact ⟨ev2, hr1.trans hr2, hm2⟩

theorem mem_walkN (hq : s.queryType.isSome = true) (h : DocRelN d d') (ev : Ev) (env : Snap)
    (ho : ∀ o, ev ≠ .enter (.operation o) ∧ ev ≠ .leave (.operation o)) (hd : ∀ x, ev ≠ .enter (.document x) ∧ ev ≠ .leave (.document x))
    (hm : (ev, env) ∈ walkOf s d) : (ev, env) ∈ walkOf s d' := by
  rw [(walkOf_defs s d hq).1] at hm
  rw [(walkOf_defs s d' hq).1]
  simp only [List.cons_append, List.mem_cons, List.mem_append, List.not_mem_nil, or_false] at hm ⊢
  rcases hm with h1 | h1 | h1
  · exact absurd (congrArg Prod.fst h1) (hd d).1
  · obtain ⟨ev', hr, hm'⟩ := ev_defs_relN h ev env h1
    cases hr with
    | same => exact Or.inr (Or.inl hm')
    | enterOp o _ => exact absurd rfl (ho o).1
    | leaveOp o _ => exact absurd rfl (ho o).2
  · exact absurd (congrArg Prod.fst h1) (hd d).2

theorem defTrace_opN {β : Type} (g : Ev × Snap → List β) (hg : ∀ o env, g (.enter (.operation o), env) = [] ∧ g (.leave (.operation o), env) = [])
    (o : Operation) (n : Option Name) (x : β) (hx : x ∈ (defTrace s (.op o)).flatMap g) :
    x ∈ (defTrace s (.op { o with name := n })).flatMap g := by
  obtain ⟨⟨ev, env⟩, hm, hxe⟩ := List.mem_flatMap.1 hx
  have hm1 : (ev, env) ∈ [Definition.op o].flatMap (defTrace s) := by simpa using hm
  obtain ⟨ev', hr, hm'⟩ := ev_defs_relN (s := s) (DocRelN.op o n []) ev env hm1
  have hm2 : (ev', env) ∈ defTrace s (.op { o with name := n }) := by simpa using hm'
  cases hr with
  | same => exact List.mem_flatMap.2 ⟨_, hm2, hxe⟩
  | enterOp o1 _ => rw [(hg o1 env).1] at hxe; cases hxe
  | leaveOp o1 _ => rw [(hg o1 env).2] at hxe; cases hxe

theorem usedByN (h : DocRelN d d') (o : Operation) (n : Option Name) (v : Name)
    (hu : UsedBy s d o v) : UsedBy s d' { o with name := n } v := by
  rcases hu with h1 | ⟨f, hf, ⟨sp, hsp, hr⟩, hv⟩
  · exact Or.inl (defTrace_opN argVars (fun _ _ => ⟨rfl, rfl⟩) o n v h1)
  · refine Or.inr ⟨f, by rw [← fragmentsN h]; exact hf, ⟨sp, hsp, ?_⟩, hv⟩
    have : spreadsOf d = spreadsOf d' := by funext k; unfold spreadsOf; rw [fragmentsN h]
    rw [← this]; exact hr

theorem usageOfN (h : DocRelN d d') (o : Operation) (n : Option Name) (u : Name × Ty)
    (hu : UsageOf s d o u) : UsageOf s d' { o with name := n } u := by
  rcases hu with h1 | ⟨f, hf, ⟨sp, hsp, hr⟩, hv⟩
  · exact Or.inl (defTrace_opN varUsage (fun _ _ => ⟨rfl, rfl⟩) o n u h1)
  · refine Or.inr ⟨f, by rw [← fragmentsN h]; exact hf, ⟨sp, hsp, ?_⟩, hv⟩
    have : spreadsOf d = spreadsOf d' := by funext k; unfold spreadsOf; rw [fragmentsN h]
    rw [← this]; exact hr

theorem usedByN_back (h : DocRelN d d') (o : Operation) (n : Option Name) (v : Name)
    (hu : UsedBy s d' { o with name := n } v) : UsedBy s d o v :=
  usedByN h.symm { o with name := n } o.name v hu

theorem directivesAtN (h : DocRelN d d') : directivesAt d = directivesAt d' := by
  induction h with
  | refl d => rfl
  | op o n l => simp only [directivesAt, List.flatMap_cons, directivesOfDefinition]
  | cons x _ ih => simp only [directivesAt, List.flatMap_cons] at ih ⊢; rw [ih]
  | trans _ _ ih1 ih2 => exact ih1.trans ih2

theorem directiveListsN (h : DocRelN d d') : directiveLists d = directiveLists d' := by
  induction h with
  | refl d => rfl
  | op o n l => simp only [directiveLists, List.flatMap_cons, directiveListsOfDefinition]
  | cons x _ ih => simp only [directiveLists, List.flatMap_cons] at ih ⊢; rw [ih]
  | trans _ _ ih1 ih2 => exact ih1.trans ih2

theorem literalSitesN (hq : s.queryType.isSome = true) (h : DocRelN d d') (p : Option Ty × Value)
    (hp : p ∈ C08.literalSites s d) : p ∈ C08.literalSites s d' := by
  unfold C08.literalSites litSites at hp ⊢
  obtain ⟨⟨ev, env⟩, he, hs⟩ := List.mem_filterMap.1 hp
  refine List.mem_filterMap.2 ⟨(ev, env), mem_walkN hq h ev env ?_ ?_ he, hs⟩
  · intro o; constructor <;> (intro hx; subst hx; simp [siteOf] at hs)
  · intro x; constructor <;> (intro hx; subst hx; simp [siteOf] at hs)

theorem mergeViolatedN (hq : s.queryType.isSome = true) (h : DocRelN d d') (hv : MergeViolated s d) : MergeViolated s d' := by
  obtain ⟨sel, env, hm, hf⟩ := hv
  refine ⟨sel, env, mem_walkN hq h _ env (by intro o; simp) (by intro x; simp) hm, ?_⟩
  have hfb : d.fragByName = d'.fragByName := by funext n; unfold Document.fragByName; rw [fragmentsN h]
  have hsf : spreadFuelOf d' = spreadFuelOf d := by unfold spreadFuelOf; rw [fragmentsN h]
  have hnf : nestFuelOf d' = nestFuelOf d := by unfold nestFuelOf; rw [fragmentsN h, docDepthN h]
  rw [hsf, hnf, ← cm_congr hfb]
  unfold specFields at hf ⊢
  have : spreadFields s d' (spreadFuelOf d) = spreadFields s d (spreadFuelOf d) := (funext (spreadFields_congr hfb _)).symm
  rw [this]
  exact hf

/-- one direction for the 22 conditions that do not look at operation names -/
theorem violatesN_mp (hq : s.queryType.isSome = true) (h : DocRelN d d') (r : RuleId)
    (h1 : r ≠ .uniqueOperationNames) (h2 : r ≠ .loneAnonymousOperation)
    (hv : C01.Violates r s d) : C01.Violates r s d' := by
  have hfr := fragmentsN h
  have hfb : d.fragByName = d'.fragByName := by funext n; unfold Document.fragByName; rw [hfr]
  have hso : spreadsOf d = spreadsOf d' := by funext k; unfold spreadsOf; rw [hfr]
  have same : ∀ (n : Node) (env : Snap), (∀ o, n ≠ .operation o) → (∀ x, n ≠ .document x) →
      (Ev.enter n, env) ∈ walkOf s d → (Ev.enter n, env) ∈ walkOf s d' := by
    intro n env g1 g2 hm
    exact mem_walkN hq h _ env (fun o => ⟨fun e => g1 o (by cases e; rfl), by simp⟩) (fun x => ⟨fun e => g2 x (by cases e; rfl), by simp⟩) hm
  cases r <;> simp only [C01.Violates] at hv ⊢
  · exact absurd rfl h1
  · exact absurd rfl h2
  · obtain ⟨o, ho, hk, R, hR, fs, vis, hc, hrest⟩ := hv
    obtain ⟨n', hm⟩ := opsRelN h o ho
    exact ⟨_, hm, hk, R, hR, fs, vis, collects_perm hfb hc, hrest⟩
  · rcases hv with ⟨f, hf, hk⟩ | ⟨i, env, c, hi, htc, hk⟩ | ⟨v, ⟨env, hm⟩, hk⟩
    · exact Or.inl ⟨f, by rw [← hfr]; exact hf, hk⟩
    · exact Or.inr (Or.inl ⟨i, env, c, same _ env (by simp) (by simp) hi, htc, hk⟩)
    · exact Or.inr (Or.inr ⟨v, ⟨env, same _ env (by simp) (by simp) hm⟩, hk⟩)
  · rcases hv with ⟨f, hf, t, ht, hc⟩ | ⟨i, env, c, t, hi, htc, ht, hc⟩
    · exact Or.inl ⟨f, by rw [← hfr]; exact hf, t, ht, hc⟩
    · exact Or.inr ⟨i, env, c, t, same _ env (by simp) (by simp) hi, htc, ht, hc⟩
  · obtain ⟨o, ho, v, hv', t, ht, hi⟩ := hv
    obtain ⟨n', hm⟩ := opsRelN h o ho
    exact ⟨_, hm, v, hv', t, ht, hi⟩
  · obtain ⟨f, env, t, hf, e1, e2, e3⟩ := hv
    exact ⟨f, env, t, same _ env (by simp) (by simp) hf, e1, e2, e3⟩
  · rcases hv with ⟨f, env, P, hf, e1, e2, e3⟩ | ⟨o, ho, hk, hne⟩
    · exact Or.inl ⟨f, env, P, same _ env (by simp) (by simp) hf, e1, e2, e3⟩
    · obtain ⟨n', hm⟩ := opsRelN h o ho
      exact Or.inr ⟨_, hm, hk, hne⟩
  · unfold DuplicateFragmentName at hv ⊢; rw [← hfr]; exact hv
  · obtain ⟨sp, env, hsp, hall⟩ := hv
    exact ⟨sp, env, same _ env (by simp) (by simp) hsp, by rw [← hfr]; exact hall⟩
  · obtain ⟨f, hf, hnu⟩ := hv
    refine ⟨f, by rw [← hfr]; exact hf, fun hu' => hnu ?_⟩
    obtain ⟨o, ho, sp, hsp, hr'⟩ := hu'
    obtain ⟨n', hm⟩ := opsRelN h.symm o ho
    exact ⟨_, hm, sp, hsp, by rw [hso]; exact hr'⟩
  · exact mergeViolatedN hq h hv
  · obtain ⟨a, b, hb, hr'⟩ := hv
    exact ⟨a, b, by rw [← hso]; exact hb, by rw [← hso]; exact hr'⟩
  · rcases hv with ⟨i, env, ft, pt, hi, e1, e2, e3, e4, e5⟩ | ⟨sp, env, frag, ft, pt, hsp, hf, e1, e2, e3, e4, e5⟩
    · exact Or.inl ⟨i, env, ft, pt, same _ env (by simp) (by simp) hi, e1, e2, e3, e4, e5⟩
    · exact Or.inr ⟨sp, env, frag, ft, pt, same _ env (by simp) (by simp) hsp, by rw [← hfb]; exact hf, e1, e2, e3, e4, e5⟩
  · obtain ⟨o, ho, vd, hvd, hnu⟩ := hv
    obtain ⟨n', hm⟩ := opsRelN h o ho
    exact ⟨_, hm, vd, hvd, fun hu' => hnu (usedByN_back h o n' vd.name hu')⟩
  · obtain ⟨o, ho, v, hu', hund⟩ := hv
    obtain ⟨n', hm⟩ := opsRelN h o ho
    exact ⟨_, hm, v, usedByN h o n' v hu', hund⟩
  · rcases hv with ⟨f, env, P, fd, a, hf, e1, e2, e3, e4⟩ | ⟨dir, dd, a, ⟨env, hm⟩, e1, e2, e3⟩
    · exact Or.inl ⟨f, env, P, fd, a, same _ env (by simp) (by simp) hf, e1, e2, e3, e4⟩
    · exact Or.inr ⟨dir, dd, a, ⟨env, same _ env (by simp) (by simp) hm⟩, e1, e2, e3⟩
  · rcases hv with ⟨f, env, hf, hd⟩ | ⟨dir, ⟨env, hm⟩, hd⟩
    · exact Or.inl ⟨f, env, same _ env (by simp) (by simp) hf, hd⟩
    · exact Or.inr ⟨dir, ⟨env, same _ env (by simp) (by simp) hm⟩, hd⟩
  · obtain ⟨o, ho, hd⟩ := hv
    obtain ⟨n', hm⟩ := opsRelN h o ho
    exact ⟨_, hm, hd⟩
  · rcases hv with ⟨f, env, P, fd, ad, hf, e1, e2, e3, e4, e5⟩ | ⟨dir, dd, ad, ⟨env, hm⟩, e1, e2, e3, e4⟩
    · exact Or.inl ⟨f, env, P, fd, ad, same _ env (by simp) (by simp) hf, e1, e2, e3, e4, e5⟩
    · exact Or.inr ⟨dir, dd, ad, ⟨env, same _ env (by simp) (by simp) hm⟩, e1, e2, e3, e4⟩
  · obtain ⟨p, hp, hk⟩ := hv
    exact ⟨p, by rw [← directivesAtN h]; exact hp, hk⟩
  · obtain ⟨o, ho, u, huu, vd, hvd, hsub⟩ := hv
    obtain ⟨n', hm⟩ := opsRelN h o ho
    exact ⟨_, hm, u, usageOfN h o n' u huu, vd, hvd, hsub⟩
  · obtain ⟨τ, v, hm, hnc⟩ := hv
    exact ⟨τ, v, literalSitesN hq h _ hm, hnc⟩
  · obtain ⟨l, hl, hrest⟩ := hv
    exact ⟨l, by rw [← directiveListsN h]; exact hl, hrest⟩

theorem docOkN (h : DocRelN d d') (hd : C01.DocOk d) : C01.DocOk d' := by
  intro o ho v hv
  obtain ⟨n', hm⟩ := opsRelN h.symm o ho
  exact hd _ hm v hv

theorem noIntroN (hq : s.queryType.isSome = true) (h : DocRelN d d') (hi : C01.NoIntrospectionConditions s d) :
    C01.NoIntrospectionConditions s d' := by
  intro i env c hm hc
  exact hi i env c (mem_walkN hq h.symm _ env (by intro o; simp) (by intro x; simp) hm) hc

/-- **C14, renaming operations, accept/reject.**  `hdup`: the renaming keeps different names different
    (and equal ones equal); `hanon`: it keeps anonymous operations anonymous and named ones named. -/
theorem accepted_oprename (hs : C01.SchemaOk s) (hd : C01.DocOk d) (hi : C01.NoIntrospectionConditions s d) (h : DocRelN d d')
    (hdup : DuplicateOperationName d ↔ DuplicateOperationName d')
    (hanon : (∃ o ∈ d.operations, o.name = none) ↔ (∃ o ∈ d'.operations, o.name = none)) :
    validate s d Gen.defaultPlan = some [] ↔ validate s d' Gen.defaultPlan = some [] := by
  have hq := hs.queryRoot
  rw [C01.accepted_iff_valid_plain s d hs hd hi, C01.accepted_iff_valid_plain s d' hs (docOkN h hd) (noIntroN hq h hi)]
  have key : ∀ r, C01.Violates r s d ↔ C01.Violates r s d' := by
    intro r
    by_cases h1 : r = .uniqueOperationNames
    · subst h1; exact hdup
    by_cases h2 : r = .loneAnonymousOperation
    · subst h2
      simp only [C01.Violates, AnonymousNotAlone]
      rw [hanon, opsLengthN h]
    · exact ⟨violatesN_mp hq h r h1 h2, violatesN_mp hq h.symm r h1 h2⟩
  exact ⟨fun hv r hr => hv r ((key r).2 hr), fun hv r hr => hv r ((key r).1 hr)⟩

end
end Gql.C14
