/-
  Thm/C09.lean — PROPERTY C09: the argument rules fire exactly when the spec condition is
  violated, and an error always names the field or directive the argument is attached to.
-/
import GqlVerif.Spec.Rules
import GqlVerif.Lemmas.KnownArguments
import GqlVerif.Lemmas.Schema
import GqlVerif.Thm.C13
namespace Gql.C09
open Gql.Spec

theorem kaArgCheck_mem (slot : KaSlot) (a : Arg) (e : Err) (he : e ∈ kaArgCheck slot a) :
    ∃ p defs, slot = some (p, defs) ∧ (∀ x ∈ defs, x.name ≠ a.1) ∧
      e = ⟨.knownArgumentNames, [], unknownArgMsg p a.1⟩ := by
  unfold kaArgCheck at he
  cases slot with
  | none => simp at he
  | some pd =>
    obtain ⟨p, defs⟩ := pd
    simp only at he
    split at he
    · next h =>
      simp only [List.mem_singleton] at he
      refine ⟨p, defs, rfl, ?_, he⟩
      intro x hx hxa
      have : defs.any (fun d => d.name == a.1) = true := List.any_eq_true.2 ⟨x, hx, by simp [hxa]⟩
      simp [this] at h
    · simp at he

theorem kaArgCheck_ne_nil (p : ArgParent) (defs : List InputValueDef) (a : Arg) :
    kaArgCheck (some (p, defs)) a ≠ [] ↔ ∀ x ∈ defs, x.name ≠ a.1 := by
  unfold kaArgCheck
  simp only
  constructor
  · intro h x hx hxa
    have : defs.any (fun d => d.name == a.1) = true := List.any_eq_true.2 ⟨x, hx, by simp [hxa]⟩
    simp [this] at h
  · intro h
    have : defs.any (fun d => d.name == a.1) = false := by
      rw [List.any_eq_false]; intro x hx hxa; exact h x hx (by simpa using hxa)
    simp [this]

/-- **Every error names the owner the argument is actually attached to**: each reported error is
    "unknown argument `a`" on a field `P.f` where `a` is an argument of an occurrence of `f` under
    parent type `P` (declared there), or on a directive `@n` where `a` is an argument of an
    occurrence of the declared directive `@n`. -/
theorem knownArgumentNames_owner (s : Schema) (d : Document) :
    ∀ e ∈ errsOf .knownArgumentNames s d,
      (∃ f env P fd a, FieldAt s d f env ∧ env.parent = some P ∧ P.fieldByName f.name = some fd ∧
          a ∈ f.args ∧ (∀ x ∈ fd.args, x.name ≠ a.1) ∧ e.msg = .unknownArgOnField a.1 P.name fd.name)
      ∨ (∃ dir dd a, DirectiveAt s d dir ∧ s.directiveByName dir.name = some dd ∧
          a ∈ dir.args ∧ (∀ x ∈ dd.args, x.name ≠ a.1) ∧ e.msg = .unknownArgOnDirective a.1 dd.name) := by
  intro e he
  unfold errsOf at he
  rw [ka_document] at he
  simp only [List.mem_flatMap] at he
  obtain ⟨⟨ev, env⟩, hmem, he⟩ := he
  cases ev with
  | leave n => simp [kaOwnerCheck] at he
  | enter n =>
    cases n with
    | field f =>
      left
      simp only [kaOwnerCheck, kaArgErrs, List.mem_flatMap] at he
      obtain ⟨a, ha, he⟩ := he
      obtain ⟨p, defs, hslot, hall, rfl⟩ := kaArgCheck_mem _ a e he
      unfold fieldSlot at hslot
      cases hp : env.parent with
      | none => simp [hp] at hslot
      | some P =>
        simp only [hp] at hslot
        cases hfd : P.fieldByName f.name with
        | none => simp [hfd] at hslot
        | some fd =>
          simp only [hfd, Option.some.injEq, Prod.mk.injEq] at hslot
          obtain ⟨rfl, rfl⟩ := hslot
          exact ⟨f, env, P, fd, a, hmem, hp, hfd, ha, hall, rfl⟩
    | directive dir =>
      right
      simp only [kaOwnerCheck, kaArgErrs, List.mem_flatMap] at he
      obtain ⟨a, ha, he⟩ := he
      obtain ⟨p, defs, hslot, hall, rfl⟩ := kaArgCheck_mem _ a e he
      unfold dirSlot at hslot
      cases hdd : s.directiveByName dir.name with
      | none => simp [hdd] at hslot
      | some dd =>
        simp only [hdd, Option.some.injEq, Prod.mk.injEq] at hslot
        obtain ⟨rfl, rfl⟩ := hslot
        exact ⟨dir, dd, a, ⟨env, hmem⟩, hdd, ha, hall, rfl⟩
    | _ => simp [kaOwnerCheck] at he

/-- 'known argument names' reports iff an argument is not declared by the known field or
    directive it is attached to (arguments of unknown fields/directives are left to other rules). -/
theorem knownArgumentNames_iff (s : Schema) (d : Document) :
    fires .knownArgumentNames s d ↔ UnknownArgumentUsed s d := by
  constructor
  · intro h
    unfold fires at h
    obtain ⟨e, he⟩ := List.exists_mem_of_ne_nil _ h
    rcases knownArgumentNames_owner s d e he with ⟨f, env, P, fd, a, h1, h2, h3, h4, h5, _⟩ | ⟨dir, dd, a, h1, h2, h3, h4, _⟩
    · exact Or.inl ⟨f, env, P, fd, a, h1, h2, h3, h4, h5⟩
    · exact Or.inr ⟨dir, dd, a, h1, h2, h3, h4⟩
  · intro h
    unfold fires errsOf
    rw [ka_document, flatMap_ne_nil_iff]
    rcases h with ⟨f, env, P, fd, a, h1, h2, h3, h4, h5⟩ | ⟨dir, dd, a, ⟨env, h1⟩, h2, h3, h4⟩
    · refine ⟨(.enter (.field f), env), h1, ?_⟩
      simp only [kaOwnerCheck, kaArgErrs, fieldSlot, h2, h3]
      rw [flatMap_ne_nil_iff]
      exact ⟨a, h4, (kaArgCheck_ne_nil _ _ a).2 h5⟩
    · refine ⟨(.enter (.directive dir), env), h1, ?_⟩
      simp only [kaOwnerCheck, kaArgErrs, dirSlot, h2]
      rw [flatMap_ne_nil_iff]
      exact ⟨a, h3, (kaArgCheck_ne_nil _ _ a).2 h4⟩

/-! ### unique argument names -/

theorem eraseDups_eq_nil (l : List Name) : l.eraseDups = [] ↔ l = [] := by
  cases l with
  | nil => simp
  | cons x xs => simp [List.eraseDups_cons]

theorem dupNames_ne_nil (l : List Name) : dupNames l ≠ [] ↔ ¬ l.Nodup := by
  unfold dupNames
  rw [ne_eq, eraseDups_eq_nil, List.filter_eq_nil_iff, List.nodup_iff_count]
  constructor
  · intro h hall
    apply h
    intro a _
    have := hall a
    simp; omega
  · intro h hall
    apply h
    intro a
    by_cases ha : a ∈ l
    · have := hall a ha
      simp at this; exact this
    · rw [List.count_eq_zero_of_not_mem ha]; omega

theorem duplicateArgErrors_ne_nil (p : Pos) (args : List Arg) :
    duplicateArgErrors p args ≠ [] ↔ ¬ (args.map (·.1)).Nodup := by
  unfold duplicateArgErrors
  simp only [ne_eq, List.map_eq_nil_iff]
  exact dupNames_ne_nil _

/-- 'unique argument names' reports iff two arguments of one field or directive share a name -/
theorem uniqueArgumentNames_iff (s : Schema) (d : Document) :
    fires .uniqueArgumentNames s d ↔ DuplicateArgument s d := by
  unfold fires errsOf
  simp only [ruleOf, uniqueArgumentNames]
  rw [stateless_fires_iff]
  constructor
  · rintro ⟨⟨ev, env⟩, hmem, hne⟩
    cases ev with
    | leave n => simp at hne
    | enter n =>
      cases n with
      | field f => exact Or.inl ⟨f, env, hmem, (duplicateArgErrors_ne_nil _ _).1 hne⟩
      | directive dir => exact Or.inr ⟨dir, ⟨env, hmem⟩, (duplicateArgErrors_ne_nil _ _).1 hne⟩
      | _ => simp at hne
  · rintro (⟨f, env, hmem, h⟩ | ⟨dir, ⟨env, hmem⟩, h⟩)
    · exact ⟨(.enter (.field f), env), hmem, (duplicateArgErrors_ne_nil _ _).2 h⟩
    · exact ⟨(.enter (.directive dir), env), hmem, (duplicateArgErrors_ne_nil _ _).2 h⟩

/-! ### provided required arguments -/

theorem missingRequired_ne_nil (used : List Arg) (defs : List InputValueDef) :
    missingRequired used defs ≠ [] ↔ ∃ ad ∈ defs, ad.isRequired = true ∧ ∀ a ∈ used, a.1 ≠ ad.name := by
  unfold missingRequired
  rw [ne_eq, List.filter_eq_nil_iff]
  constructor
  · intro h
    refine Classical.byContradiction fun hc => h ?_
    intro ad had hreq
    apply hc
    simp only [Bool.and_eq_true, Bool.not_eq_eq_eq_not, Bool.not_true, List.any_eq_false, beq_iff_eq] at hreq
    exact ⟨ad, had, hreq.1, fun a ha => hreq.2 a ha⟩
  · rintro ⟨ad, had, hreq, hall⟩ h
    have := h ad had
    apply this
    simp only [Bool.and_eq_true, hreq, true_and, Bool.not_eq_eq_eq_not, Bool.not_true, List.any_eq_false, beq_iff_eq]
    exact fun a ha => hall a ha

/-- 'provided required arguments' reports iff a declared argument of non-null type without
    default is not supplied (on a known field / declared directive) -/
theorem providedRequiredArguments_iff (s : Schema) (d : Document)
    (hn : (s.directives.map (·.name)).Nodup) :
    fires .providedRequiredArguments s d ↔ RequiredArgumentMissing s d := by
  unfold fires errsOf
  simp only [ruleOf, providedRequiredArguments]
  rw [stateless_fires_iff]
  constructor
  · rintro ⟨⟨ev, env⟩, hmem, hne⟩
    cases ev with
    | leave n => simp at hne
    | enter n =>
      cases n with
      | field f =>
        simp only at hne
        cases hp : env.parent with
        | none => simp [hp] at hne
        | some P =>
          simp only [hp] at hne
          cases hfd : P.fieldByName f.name with
          | none => simp [hfd] at hne
          | some fd =>
            simp only [hfd, ne_eq, List.map_eq_nil_iff] at hne
            obtain ⟨ad, h1, h2, h3⟩ := (missingRequired_ne_nil _ _).1 hne
            exact Or.inl ⟨f, env, P, fd, ad, hmem, hp, hfd, h1, h2, h3⟩
      | directive dir =>
        simp only [directiveMapGet_eq_directiveByName s hn] at hne
        cases hdd : s.directiveByName dir.name with
        | none => simp [hdd] at hne
        | some dd =>
          simp only [hdd, ne_eq, List.map_eq_nil_iff] at hne
          obtain ⟨ad, h1, h2, h3⟩ := (missingRequired_ne_nil _ _).1 hne
          exact Or.inr ⟨dir, dd, ad, ⟨env, hmem⟩, hdd, h1, h2, h3⟩
      | _ => simp at hne
  · rintro (⟨f, env, P, fd, ad, hmem, hp, hfd, h1, h2, h3⟩ | ⟨dir, dd, ad, ⟨env, hmem⟩, hdd, h1, h2, h3⟩)
    · refine ⟨(.enter (.field f), env), hmem, ?_⟩
      simp only [hp, hfd, ne_eq, List.map_eq_nil_iff]
      exact (missingRequired_ne_nil _ _).2 ⟨ad, h1, h2, h3⟩
    · refine ⟨(.enter (.directive dir), env), hmem, ?_⟩
      simp only [directiveMapGet_eq_directiveByName s hn, hdd, ne_eq, List.map_eq_nil_iff]
      exact (missingRequired_ne_nil _ _).2 ⟨ad, h1, h2, h3⟩

theorem codes_C09 (s : Schema) (d : Document) :
    (∀ e ∈ errsOf .knownArgumentNames s d, e.code = .knownArgumentNames) ∧
    (∀ e ∈ errsOf .uniqueArgumentNames s d, e.code = .uniqueArgumentNames) ∧
    (∀ e ∈ errsOf .providedRequiredArguments s d, e.code = .providedRequiredArguments) :=
  ⟨C13.codes s d _ _, C13.codes s d _ _, C13.codes s d _ _⟩

/-! Non-vacuity (regression witnesses of the repaired F8 among them).
    `type Query { f(i: Int, r: Int!): Int  t: T }  type T { a: Int }  directive @dir(x: Int) on FIELD`
    ids: Query=0 Int=6 f=20 i=22 r=24 t=26 T=28 a=30 dir=32 x=34 z=36 nope=38 -/
def exSchema : Schema :=
  [ .type (.object 0 [] [⟨20, [⟨22, .named 6, none⟩, ⟨24, .nonNull (.named 6), none⟩], .named 6⟩, ⟨26, [], .named 28⟩]),
    .type (.object 28 [] [⟨30, [], .named 6⟩]), .type (.scalar 6), .directive ⟨32, false, [.field], [⟨34, .named 6, none⟩]⟩ ]
def q (sel : List Selection) : Document := [.op ⟨.shorthand, ⟨0, 0⟩, none, [], [], sel⟩]
def fld (n : Name) (args : List Arg) (dirs : List Directive) (sel : List Selection) : Selection :=
  .field ⟨1, 1⟩ none n args dirs sel

example : ¬ fires .knownArgumentNames exSchema (q [fld 20 [(22, .int 1), (24, .int 1)] [⟨⟨1, 2⟩, 32, [(34, .int 1)]⟩] []]) := by decide
example : fires .knownArgumentNames exSchema (q [fld 20 [(36, .int 1)] [] []]) := by decide
-- { f(i: 1) @nope(z: 1) }: the argument of the unknown directive is not charged to `Query.f`
example : ¬ fires .knownArgumentNames exSchema (q [fld 20 [(22, .int 1)] [⟨⟨1, 2⟩, 38, [(36, .int 1)]⟩] []]) := by decide
-- { t { nope(z: 1) } }: the argument of the unknown nested field is not charged to `Query.t`
example : ¬ fires .knownArgumentNames exSchema (q [fld 26 [] [] [fld 38 [(36, .int 1)] [] []]]) := by decide
example : fires .uniqueArgumentNames exSchema (q [fld 20 [(22, .int 1), (22, .int 2)] [] []]) := by decide
example : fires .providedRequiredArguments exSchema (q [fld 20 [(22, .int 1)] [] []]) := by decide
example : ¬ fires .providedRequiredArguments exSchema (q [fld 20 [(24, .int 1)] [] []]) := by decide

end Gql.C09
