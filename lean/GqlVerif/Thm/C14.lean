/-
  Thm/C14.lean — PROPERTY C14 (partial): permuting the top-level definitions of a document changes
  neither which of 23 rules report nor (given `MergeAgrees` on both documents, or leaving the
  field-merging rule aside) accept/reject.  Proved on the spec side — every `Violates` predicate
  depends on the document only through the set of its definitions — and transported to the rules
  by the iff theorems.  The other rewrites of C14 are explored by the metamorphic run.
-/
import GqlVerif.Thm.C01
namespace Gql.C14
open Gql.Spec

section
variable {s : Schema} {d d' : Document}

theorem perm_operations (h : d.Perm d') : d.operations.Perm d'.operations := by
  induction h with
  | nil => exact .nil
  | cons x _ ih => cases x <;> simp [Document.operations, ih]
  | swap x y l => cases x <;> cases y <;> simp [Document.operations, List.Perm.swap]
  | trans _ _ ih1 ih2 => exact ih1.trans ih2

theorem perm_fragments (h : d.Perm d') : d.fragments.Perm d'.fragments := by
  induction h with
  | nil => exact .nil
  | cons x _ ih => cases x <;> simp [Document.fragments, ih]
  | swap x y l => cases x <;> cases y <;> simp [Document.fragments, List.Perm.swap]
  | trans _ _ ih1 ih2 => exact ih1.trans ih2

theorem mem_ops (h : d.Perm d') (o : Operation) : o ∈ d.operations ↔ o ∈ d'.operations := (perm_operations h).mem_iff
theorem mem_frags (h : d.Perm d') (f : FragDef) : f ∈ d.fragments ↔ f ∈ d'.fragments := (perm_fragments h).mem_iff

/-- with unique fragment names a name denotes the same definition in both documents -/
theorem fragByName_perm (h : d.Perm d') (hn : (d.fragments.map (·.name)).Nodup) : d.fragByName = d'.fragByName := by
  have hn' : (d'.fragments.map (·.name)).Nodup := ((perm_fragments h).map _).nodup_iff.1 hn
  funext n
  cases hf : d.fragByName n with
  | some f =>
    obtain ⟨hm, hname⟩ := fragByName_some_mem d hf
    rw [← hname, fragByName_of_nodup d' hn' ((mem_frags h f).1 hm)]
  | none =>
    symm
    rw [fragByName_none_iff]
    intro f hf'
    exact (fragByName_none_iff d n).1 hf f ((mem_frags h f).2 hf')

theorem mem_spreadsOf (h : d.Perm d') (n x : Name) : x ∈ spreadsOf d n ↔ x ∈ spreadsOf d' n := by
  unfold spreadsOf
  simp only [List.mem_flatMap, List.mem_filter]
  constructor
  · rintro ⟨f, ⟨hf, hn⟩, hx⟩; exact ⟨f, ⟨(mem_frags h f).1 hf, hn⟩, hx⟩
  · rintro ⟨f, ⟨hf, hn⟩, hx⟩; exact ⟨f, ⟨(mem_frags h f).2 hf, hn⟩, hx⟩

theorem reachable_congr {α : Type} {f g : α → List α} (hfg : ∀ a x, x ∈ f a ↔ x ∈ g a) {a b : α}
    (hr : Reachable f a b) : Reachable g a b := by
  induction hr with
  | refl => exact .refl _
  | step hm _ ih => exact .step ((hfg _ _).1 hm) ih

theorem reachable_perm (h : d.Perm d') (a b : Name) : Reachable (spreadsOf d) a b ↔ Reachable (spreadsOf d') a b :=
  ⟨reachable_congr (mem_spreadsOf h), reachable_congr (fun n x => (mem_spreadsOf h n x).symm)⟩

/-- the callbacks below the document node are the same set -/
theorem mem_walk_perm (h : d.Perm d') (hq : s.queryType.isSome = true) (e : Ev × Snap)
    (hne : ∀ x, e.1 ≠ .enter (.document x) ∧ e.1 ≠ .leave (.document x)) : e ∈ walkOf s d ↔ e ∈ walkOf s d' := by
  have key : ∀ {a b : Document}, a.Perm b → e ∈ walkOf s a → e ∈ walkOf s b := by
    intro a b hab he
    rw [(walkOf_defs s a hq).1] at he
    rw [(walkOf_defs s b hq).1]
    simp only [List.cons_append, List.mem_cons, List.mem_append, List.mem_flatMap, List.not_mem_nil, or_false] at he ⊢
    rcases he with he | ⟨x, hx, hex⟩ | he
    · exact absurd (congrArg Prod.fst he) (hne a).1
    · exact Or.inr (Or.inl ⟨x, hab.mem_iff.1 hx, hex⟩)
    · exact absurd (congrArg Prod.fst he) (hne a).2
  exact ⟨key h, key h.symm⟩

theorem field_walk_perm (h : d.Perm d') (hq : s.queryType.isSome = true) (f : FieldNode) (env : Snap) :
    FieldAt s d f env ↔ FieldAt s d' f env := mem_walk_perm h hq _ (fun _ => ⟨by simp, by simp⟩)
theorem spread_walk_perm (h : d.Perm d') (hq : s.queryType.isSome = true) (sp : SpreadNode) (env : Snap) :
    SpreadAt s d sp env ↔ SpreadAt s d' sp env := mem_walk_perm h hq _ (fun _ => ⟨by simp, by simp⟩)
theorem inline_walk_perm (h : d.Perm d') (hq : s.queryType.isSome = true) (i : InlineNode) (env : Snap) :
    InlineAt s d i env ↔ InlineAt s d' i env := mem_walk_perm h hq _ (fun _ => ⟨by simp, by simp⟩)

theorem usedBy_perm (h : d.Perm d') (o : Operation) (v : Name) : UsedBy s d o v ↔ UsedBy s d' o v := by
  unfold UsedBy InScope
  constructor
  · rintro (h1 | ⟨f, hf, ⟨sp, hsp, hr⟩, hv⟩)
    · exact Or.inl h1
    · exact Or.inr ⟨f, (mem_frags h f).1 hf, ⟨sp, hsp, (reachable_perm h _ _).1 hr⟩, hv⟩
  · rintro (h1 | ⟨f, hf, ⟨sp, hsp, hr⟩, hv⟩)
    · exact Or.inl h1
    · exact Or.inr ⟨f, (mem_frags h f).2 hf, ⟨sp, hsp, (reachable_perm h _ _).2 hr⟩, hv⟩

theorem usageOf_perm (h : d.Perm d') (o : Operation) (u : Name × Ty) : UsageOf s d o u ↔ UsageOf s d' o u := by
  unfold UsageOf InScope
  constructor
  · rintro (h1 | ⟨f, hf, ⟨sp, hsp, hr⟩, hv⟩)
    · exact Or.inl h1
    · exact Or.inr ⟨f, (mem_frags h f).1 hf, ⟨sp, hsp, (reachable_perm h _ _).1 hr⟩, hv⟩
  · rintro (h1 | ⟨f, hf, ⟨sp, hsp, hr⟩, hv⟩)
    · exact Or.inl h1
    · exact Or.inr ⟨f, (mem_frags h f).2 hf, ⟨sp, hsp, (reachable_perm h _ _).2 hr⟩, hv⟩

theorem collects_perm (hfb : d.fragByName = d'.fragByName) {R : TypeDef} {sel : List Selection} {vis vis' : List Name}
    {fs : List FieldNode} (hc : Collects s d R sel vis fs vis') : Collects s d' R sel vis fs vis' := by
  induction hc with
  | nil vis => exact .nil vis
  | field _ ih => exact .field ih
  | spreadVisited hv _ ih => exact .spreadVisited hv ih
  | spreadUnknown hv hf _ ih => exact .spreadUnknown hv (hfb ▸ hf) ih
  | spreadSkip hv hf ha _ ih => exact .spreadSkip hv (hfb ▸ hf) ha ih
  | spreadExpand hv hf ha _ _ ih1 ih2 => exact .spreadExpand hv (hfb ▸ hf) ha ih1 ih2
  | inlineSkip ha _ ih => exact .inlineSkip ha ih
  | inlineExpand ha _ _ ih1 ih2 => exact .inlineExpand ha ih1 ih2

/-- one direction for every condition but the field-merging one; the other follows by symmetry -/
theorem violates_perm_mp (h : d.Perm d') (hq : s.queryType.isSome = true) (hn : (d.fragments.map (·.name)).Nodup)
    (r : RuleId) (hr : r ≠ .overlappingFieldsCanBeMerged) (hv : C01.Violates r s d) : C01.Violates r s d' := by
  have hfb := fragByName_perm h hn
  cases r <;> simp only [C01.Violates] at hv ⊢
  · -- unique operation names
    unfold DuplicateOperationName at hv ⊢
    exact fun hnd => hv (((perm_operations h).filterMap _).nodup_iff.2 hnd)
  · obtain ⟨⟨o, ho, hnone⟩, hl⟩ := hv
    exact ⟨⟨o, (mem_ops h o).1 ho, hnone⟩, by rw [← (perm_operations h).length_eq]; exact hl⟩
  · obtain ⟨o, ho, hk, R, hR, fs, vis, hc, hrest⟩ := hv
    exact ⟨o, (mem_ops h o).1 ho, hk, R, hR, fs, vis, collects_perm hfb hc, hrest⟩
  · rcases hv with ⟨f, hf, hk⟩ | ⟨i, env, c, hi, htc, hk⟩ | ⟨v, ⟨env, hm⟩, hk⟩
    · exact Or.inl ⟨f, (mem_frags h f).1 hf, hk⟩
    · exact Or.inr (Or.inl ⟨i, env, c, (inline_walk_perm h hq i env).1 hi, htc, hk⟩)
    · exact Or.inr (Or.inr ⟨v, ⟨env, (mem_walk_perm h hq _ (fun _ => ⟨by simp, by simp⟩)).1 hm⟩, hk⟩)
  · rcases hv with ⟨f, hf, t, ht, hc⟩ | ⟨i, env, c, t, hi, htc, ht, hc⟩
    · exact Or.inl ⟨f, (mem_frags h f).1 hf, t, ht, hc⟩
    · exact Or.inr ⟨i, env, c, t, (inline_walk_perm h hq i env).1 hi, htc, ht, hc⟩
  · obtain ⟨o, ho, v, hv', t, ht, hi⟩ := hv
    exact ⟨o, (mem_ops h o).1 ho, v, hv', t, ht, hi⟩
  · obtain ⟨f, env, t, hf, h1, h2, h3⟩ := hv
    exact ⟨f, env, t, (field_walk_perm h hq f env).1 hf, h1, h2, h3⟩
  · rcases hv with ⟨f, env, P, hf, h1, h2, h3⟩ | ⟨o, ho, hk, hne⟩
    · exact Or.inl ⟨f, env, P, (field_walk_perm h hq f env).1 hf, h1, h2, h3⟩
    · exact Or.inr ⟨o, (mem_ops h o).1 ho, hk, hne⟩
  · unfold DuplicateFragmentName at hv ⊢
    exact fun hnd => hv (((perm_fragments h).map _).nodup_iff.2 hnd)
  · obtain ⟨sp, env, hsp, hall⟩ := hv
    exact ⟨sp, env, (spread_walk_perm h hq sp env).1 hsp, fun f hf => hall f ((mem_frags h f).2 hf)⟩
  · obtain ⟨f, hf, hnu⟩ := hv
    refine ⟨f, (mem_frags h f).1 hf, fun hu => hnu ?_⟩
    obtain ⟨o, ho, sp, hsp, hr'⟩ := hu
    exact ⟨o, (mem_ops h o).2 ho, sp, hsp, (reachable_perm h _ _).2 hr'⟩
  · exact absurd rfl hr
  · obtain ⟨a, b, hb, hr'⟩ := hv
    exact ⟨a, b, (mem_spreadsOf h a b).1 hb, (reachable_perm h b a).1 hr'⟩
  · rcases hv with ⟨i, env, ft, pt, hi, h1, h2, h3, h4, h5⟩ | ⟨sp, env, frag, ft, pt, hsp, hf, h1, h2, h3, h4, h5⟩
    · exact Or.inl ⟨i, env, ft, pt, (inline_walk_perm h hq i env).1 hi, h1, h2, h3, h4, h5⟩
    · exact Or.inr ⟨sp, env, frag, ft, pt, (spread_walk_perm h hq sp env).1 hsp, hfb ▸ hf, h1, h2, h3, h4, h5⟩
  · obtain ⟨o, ho, vd, hvd, hnu⟩ := hv
    exact ⟨o, (mem_ops h o).1 ho, vd, hvd, fun hu => hnu ((usedBy_perm h o vd.name).2 hu)⟩
  · obtain ⟨o, ho, v, hu, hund⟩ := hv
    exact ⟨o, (mem_ops h o).1 ho, v, (usedBy_perm h o v).1 hu, hund⟩
  · rcases hv with ⟨f, env, P, fd, a, hf, h1, h2, h3, h4⟩ | ⟨dir, dd, a, ⟨env, hm⟩, h1, h2, h3⟩
    · exact Or.inl ⟨f, env, P, fd, a, (field_walk_perm h hq f env).1 hf, h1, h2, h3, h4⟩
    · exact Or.inr ⟨dir, dd, a, ⟨env, (mem_walk_perm h hq _ (fun _ => ⟨by simp, by simp⟩)).1 hm⟩, h1, h2, h3⟩
  · rcases hv with ⟨f, env, hf, hd⟩ | ⟨dir, ⟨env, hm⟩, hd⟩
    · exact Or.inl ⟨f, env, (field_walk_perm h hq f env).1 hf, hd⟩
    · exact Or.inr ⟨dir, ⟨env, (mem_walk_perm h hq _ (fun _ => ⟨by simp, by simp⟩)).1 hm⟩, hd⟩
  · obtain ⟨o, ho, hd⟩ := hv
    exact ⟨o, (mem_ops h o).1 ho, hd⟩
  · rcases hv with ⟨f, env, P, fd, ad, hf, h1, h2, h3, h4, h5⟩ | ⟨dir, dd, ad, ⟨env, hm⟩, h1, h2, h3, h4⟩
    · exact Or.inl ⟨f, env, P, fd, ad, (field_walk_perm h hq f env).1 hf, h1, h2, h3, h4, h5⟩
    · exact Or.inr ⟨dir, dd, ad, ⟨env, (mem_walk_perm h hq _ (fun _ => ⟨by simp, by simp⟩)).1 hm⟩, h1, h2, h3, h4⟩
  · obtain ⟨p, hp, hk⟩ := hv
    refine ⟨p, ?_, hk⟩
    unfold directivesAt at hp ⊢
    obtain ⟨x, hx, hpx⟩ := List.mem_flatMap.1 hp
    exact List.mem_flatMap.2 ⟨x, h.mem_iff.1 hx, hpx⟩
  · obtain ⟨o, ho, u, hu, vd, hvd, hsub⟩ := hv
    exact ⟨o, (mem_ops h o).1 ho, u, (usageOf_perm h o u).1 hu, vd, hvd, hsub⟩
  · obtain ⟨τ, v, hm, hnc⟩ := hv
    refine ⟨τ, v, ?_, hnc⟩
    unfold C08.literalSites litSites at hm ⊢
    obtain ⟨e, he, hs⟩ := List.mem_filterMap.1 hm
    refine List.mem_filterMap.2 ⟨e, (mem_walk_perm h hq e ?_).1 he, hs⟩
    intro x
    constructor <;> (intro hx; simp [siteOf, hx] at hs)
  · obtain ⟨l, hl, hrest⟩ := hv
    refine ⟨l, ?_, hrest⟩
    unfold directiveLists at hl ⊢
    obtain ⟨x, hx, hlx⟩ := List.mem_flatMap.1 hl
    exact List.mem_flatMap.2 ⟨x, h.mem_iff.1 hx, hlx⟩

/-- every condition but the field-merging one is invariant under permuting the definitions -/
theorem violates_perm (h : d.Perm d') (hq : s.queryType.isSome = true) (hn : (d.fragments.map (·.name)).Nodup)
    (r : RuleId) (hr : r ≠ .overlappingFieldsCanBeMerged) : C01.Violates r s d ↔ C01.Violates r s d' :=
  ⟨violates_perm_mp h hq hn r hr,
   violates_perm_mp h.symm hq (((perm_fragments h).map _).nodup_iff.1 hn) r hr⟩

theorem docOk_perm (h : d.Perm d') (hd : C01.DocOk d) : C01.DocOk d' :=
  fun o ho v hv => hd o ((mem_ops h o).2 ho) v hv

/-- **C14, definitions.**  Which of the 23 rules (all but the field-merging one) report is the
    same for a document and any permutation of its top-level definitions. -/
theorem fires_perm (hs : C01.SchemaOk s) (hd : C01.DocOk d) (h : d.Perm d')
    (hn : (d.fragments.map (·.name)).Nodup) (r : RuleId) (hr : r ≠ .overlappingFieldsCanBeMerged) :
    fires r s d ↔ fires r s d' := by
  have hn' : (d'.fragments.map (·.name)).Nodup := ((perm_fragments h).map _).nodup_iff.1 hn
  have hd' := docOk_perm h hd
  by_cases h2 : r = .noFragmentsCycle
  · subst h2
    rw [C06.noFragmentsCycle_iff s d hs.queryRoot hn, C06.noFragmentsCycle_iff s d' hs.queryRoot hn']
    exact violates_perm h hs.queryRoot hn .noFragmentsCycle (by simp)
  by_cases h3 : r = .valuesOfCorrectType
  · subst h3
    have hvt : VarTypesGood s d ↔ VarTypesGood s d' :=
      ⟨fun g o ho v hv => g o (h.mem_iff.2 ho) v hv, fun g o ho v hv => g o (h.mem_iff.1 ho) v hv⟩
    by_cases hg : VarTypesGood s d
    · rw [C08.valuesOfCorrectType_iff_wf s d hs.inputsClosed hs.argsGood hg,
        C08.valuesOfCorrectType_iff_wf s d' hs.inputsClosed hs.argsGood (hvt.1 hg)]
      exact violates_perm h hs.queryRoot hn .valuesOfCorrectType (by simp)
    · -- outside the hypothesis of the C08 theorem: compare the reports site by site
      unfold fires
      rw [C08.errs_eq, C08.errs_eq, flatMap_ne_nil_iff, flatMap_ne_nil_iff]
      have hsites : ∀ p, p ∈ C08.literalSites s d ↔ p ∈ C08.literalSites s d' := by
        intro p
        unfold C08.literalSites litSites
        simp only [List.mem_filterMap]
        have hno : ∀ e : Ev × Snap, siteOf e = some p → ∀ x, e.1 ≠ .enter (.document x) ∧ e.1 ≠ .leave (.document x) := by
          intro e hs x
          constructor <;> (intro hx; simp [siteOf, hx] at hs)
        have hq := hs.queryRoot
        constructor
        · rintro ⟨e, he, hse⟩; exact ⟨e, (mem_walk_perm h hq e (hno e hse)).1 he, hse⟩
        · rintro ⟨e, he, hse⟩; exact ⟨e, (mem_walk_perm h hq e (hno e hse)).2 he, hse⟩
      constructor
      · rintro ⟨p, hp, hne⟩; exact ⟨p, (hsites p).1 hp, hne⟩
      · rintro ⟨p, hp, hne⟩; exact ⟨p, (hsites p).2 hp, hne⟩
  rw [C01.fires_iff_violates_basic s d hs r hr h2 h3, C01.fires_iff_violates_basic s d' hs r hr h2 h3]
  exact violates_perm h hs.queryRoot hn r hr

end

/-- **F18 (known finding).**  `query ($x: Int, $x: Int!) { f(r: $x) }` against `f(r: Int!)`: the two
    orders of the variable definitions are permutations of each other, the uniqueness rule reports
    for both, variables-in-allowed-position (first match) only for the first. -/
theorem f18_witness :
    let a := [C07.qry none [C07.var 120 (.named 6) none, C07.var 120 (.nonNull (.named 6)) none] [C07.fld [(104, .var 120)]]]
    let b := [C07.qry none [C07.var 120 (.nonNull (.named 6)) none, C07.var 120 (.named 6) none] [C07.fld [(104, .var 120)]]]
    fires .uniqueVariableNames C07.exSchema a ∧ fires .uniqueVariableNames C07.exSchema b ∧
    fires .variablesInAllowedPosition C07.exSchema a ∧ ¬ fires .variablesInAllowedPosition C07.exSchema b := by
  decide

/-- **F19 (known finding).**  Against `type Query { a: Int }` (no subscription root type),
    `subscription { __typename }` is rejected - by the extra check of fields-on-correct-type only -
    and `subscription { ... { __typename } }` is accepted by every rule. -/
theorem f19_witness :
    let s : Schema := [.type (.object 0 [] [⟨100, [], .named 6⟩]), .type (.scalar 6)]
    let tn : Selection := .field ⟨1, 16⟩ none nTypename [] [] []
    let a : Document := [.op ⟨.subscription, ⟨1, 1⟩, none, [], [], [tn]⟩]
    let b : Document := [.op ⟨.subscription, ⟨1, 1⟩, none, [], [], [.inline ⟨1, 16⟩ none [] [tn]]⟩]
    fires .fieldsOnCorrectType s a ∧ (∀ r, r ≠ .fieldsOnCorrectType → ¬ fires r s a) ∧ ∀ r, ¬ fires r s b := by
  refine ⟨by decide, ?_, ?_⟩
  · intro r hr; cases r <;> first | exact absurd rfl hr | decide | decide +kernel
  · intro r; cases r <;> first | decide | decide +kernel

end Gql.C14
