/-
  Thm/C14c.lean — PROPERTY C14, top-level definitions, now for ALL 24 rules and for accept/reject:
  FieldsInSetCanMerge depends on the document only through the set of its definitions (the
  selection sets the walk visits, the fragment a name resolves to, the number of fragments and the
  nesting depth - which bound the fuel), and the merging rule reports iff it fails
  (`merge_iff_acyclic`).  Hence permuting the definitions of a document changes neither which of
  the 24 rules report (`fires_perm_all`, documents without fragment cycles) nor accept/reject under
  the default plan (`accepted_perm`, every document: with a duplicate fragment name or a cycle both
  orders are rejected).
-/
import GqlVerif.Thm.C14
import GqlVerif.Thm.C05c
namespace Gql.C14
open Gql.Spec

section
variable {s : Schema} {d d' : Document}

theorem docDepth_perm (h : d.Perm d') : docDepth d = docDepth d' := by
  induction h with
  | nil => rfl
  | cons x _ ih => simp only [docDepth, ih]
  | swap x y l => simp only [docDepth]; omega
  | trans _ _ ih1 ih2 => exact ih1.trans ih2

theorem spreadFields_congr (hfb : d.fragByName = d'.fragByName) : ∀ (n : Nat) (nm : Name),
    spreadFields s d n nm = spreadFields s d' n nm
  | 0, _ => rfl
  | n + 1, nm => by
      simp only [spreadFields, hfb]
      cases d'.fragByName nm with
      | none => rfl
      | some fr =>
        simp only
        have : spreadFields s d n = spreadFields s d' n := funext (spreadFields_congr hfb n)
        rw [this]

theorem subFields_congr (hfb : d.fragByName = d'.fragByName) (sf : Nat) (a : AstAndDef) :
    subFields s d sf a = subFields s d' sf a := by
  unfold subFields specFields
  have : spreadFields s d sf = spreadFields s d' sf := funext (spreadFields_congr hfb sf)
  rw [this]

theorem srs_congr (hfb : d.fragByName = d'.fragByName) (sf : Nat) : ∀ (n : Nat) (a b : AstAndDef),
    sameResponseShape s d sf n a b = sameResponseShape s d' sf n a b
  | 0, _, _ => rfl
  | n + 1, a, b => by
      rw [srs_succ, srs_succ, subFields_congr hfb, subFields_congr hfb]
      have : sameResponseShape s d sf n = sameResponseShape s d' sf n := funext fun a => funext fun b => srs_congr hfb sf n a b
      rw [this]

theorem cm_congr (hfb : d.fragByName = d'.fragByName) (sf : Nat) : ∀ (n : Nat) (L : List AstAndDef),
    fieldsInSetCanMerge s d sf n L = fieldsInSetCanMerge s d' sf n L
  | 0, _ => rfl
  | n + 1, L => by
      rw [cm_succ, cm_succ]
      have : pairOk s d sf n = pairOk s d' sf n := by
        funext a b
        unfold pairOk
        rw [srs_congr hfb, subFields_congr hfb, subFields_congr hfb, cm_congr hfb sf n]
      rw [this]

/-- FieldsInSetCanMerge fails for a document iff it fails for any permutation of its definitions -/
theorem mergeViolated_perm_mp (h : d.Perm d') (hq : s.queryType.isSome = true) (hn : (d.fragments.map (·.name)).Nodup)
    (hv : MergeViolated s d) : MergeViolated s d' := by
  have hfb := fragByName_perm h hn
  obtain ⟨sel, env, hm, hf⟩ := hv
  refine ⟨sel, env, (mem_walk_perm h hq _ (fun _ => ⟨by simp, by simp⟩)).1 hm, ?_⟩
  have hlen : d'.fragments.length = d.fragments.length := (perm_fragments h).length_eq.symm
  have hsf : spreadFuelOf d' = spreadFuelOf d := by unfold spreadFuelOf; rw [hlen]
  have hnf : nestFuelOf d' = nestFuelOf d := by unfold nestFuelOf; rw [hlen, docDepth_perm h]
  rw [hsf, hnf, ← cm_congr hfb]
  unfold specFields at hf ⊢
  have : spreadFields s d' (spreadFuelOf d) = spreadFields s d (spreadFuelOf d) := (funext (spreadFields_congr hfb _)).symm
  rw [this]
  exact hf

theorem mergeViolated_perm (h : d.Perm d') (hq : s.queryType.isSome = true) (hn : (d.fragments.map (·.name)).Nodup) :
    MergeViolated s d ↔ MergeViolated s d' :=
  ⟨mergeViolated_perm_mp h hq hn, mergeViolated_perm_mp h.symm hq (((perm_fragments h).map _).nodup_iff.1 hn)⟩

/-- every one of the 24 conditions is invariant under permuting the definitions -/
theorem violates_perm_all (h : d.Perm d') (hq : s.queryType.isSome = true) (hn : (d.fragments.map (·.name)).Nodup)
    (r : RuleId) : C01.Violates r s d ↔ C01.Violates r s d' := by
  by_cases hr : r = .overlappingFieldsCanBeMerged
  · subst hr; exact mergeViolated_perm h hq hn
  · exact violates_perm h hq hn r hr

theorem tcKnown_perm (h : d.Perm d') (ht : TcKnown s d) : TcKnown s d' := fun x hx => ht x (h.mem_iff.2 hx)

theorem argsUniq_perm (h : d.Perm d') (hq : s.queryType.isSome = true) (hu : ArgsUniq s d) : ArgsUniq s d' :=
  fun f env hm => hu f env ((field_walk_perm h hq f env).2 hm)

theorem noIntro_perm (h : d.Perm d') (hq : s.queryType.isSome = true) (hi : C01.NoIntrospectionConditions s d) :
    C01.NoIntrospectionConditions s d' :=
  fun i env c hm hc => hi i env c ((inline_walk_perm h hq i env).2 hm) hc

/-- **C14, definitions, the field-merging rule.**  On a document without fragment cycles the rule
    reports iff it reports on any permutation of the definitions. -/
theorem fires_perm_merge (h : d.Perm d') (hq : s.queryType.isSome = true) (hn : (d.fragments.map (·.name)).Nodup)
    (ht : TcKnown s d) (hu : ArgsUniq s d) (hac : ¬ FragmentCycle d) :
    fires .overlappingFieldsCanBeMerged s d ↔ fires .overlappingFieldsCanBeMerged s d' := by
  have hac' : ¬ FragmentCycle d' := fun hc => hac ((violates_perm h hq hn .noFragmentsCycle (by simp)).2 hc)
  rw [C05.merge_iff_acyclic s d hq ht hu hac, C05.merge_iff_acyclic s d' hq (tcKnown_perm h ht) (argsUniq_perm h hq hu) hac']
  exact mergeViolated_perm h hq hn

/-- **C14, definitions, all 24 rules.** -/
theorem fires_perm_all (hs : C01.SchemaOk s) (hd : C01.DocOk d) (h : d.Perm d')
    (hn : (d.fragments.map (·.name)).Nodup) (ht : TcKnown s d) (hu : ArgsUniq s d) (hac : ¬ FragmentCycle d) (r : RuleId) :
    fires r s d ↔ fires r s d' := by
  by_cases hr : r = .overlappingFieldsCanBeMerged
  · subst hr; exact fires_perm_merge h hs.queryRoot hn ht hu hac
  · exact fires_perm hs hd h hn r hr

/-- **C14, definitions, accept/reject** - for every document (cyclic ones, duplicate fragment names,
    undeclared type conditions included: those are rejected in every order). -/
theorem accepted_perm (hs : C01.SchemaOk s) (hd : C01.DocOk d) (hi : C01.NoIntrospectionConditions s d) (h : d.Perm d') :
    validate s d Gen.defaultPlan = some [] ↔ validate s d' Gen.defaultPlan = some [] := by
  have hq := hs.queryRoot
  by_cases hn : (d.fragments.map (·.name)).Nodup
  · rw [C01.accepted_iff_valid_plain s d hs hd hi,
      C01.accepted_iff_valid_plain s d' hs (docOk_perm h hd) (noIntro_perm h hq hi)]
    exact ⟨fun hv r hr => hv r ((violates_perm_all h hq hn r).2 hr), fun hv r hr => hv r ((violates_perm_all h hq hn r).1 hr)⟩
  · -- a duplicate fragment name: 'unique fragment names' reports in both orders
    have hn' : ¬ (d'.fragments.map (·.name)).Nodup := fun hc => hn (((perm_fragments h).map _).nodup_iff.2 hc)
    have r1 : ¬ validate s d Gen.defaultPlan = some [] := fun ha =>
      (C01.accepted_iff_none_fires s d hq).1 ha .uniqueFragmentNames ((C06.uniqueFragmentNames_iff s d hq).2 hn)
    have r2 : ¬ validate s d' Gen.defaultPlan = some [] := fun ha =>
      (C01.accepted_iff_none_fires s d' hq).1 ha .uniqueFragmentNames ((C06.uniqueFragmentNames_iff s d' hq).2 hn')
    exact ⟨fun ha => absurd ha r1, fun ha => absurd ha r2⟩

end
end Gql.C14
