/-
  Model/Codec.lean — a generic model of what `#[derive(Serialize, Deserialize)]` does for the
  shapes used by src/introspection/introspection.rs: structs (optionally with a `tag` attribute),
  internally tagged enums with newtype/struct variants, unit-only enums, `Option`, `Vec`, `Box`,
  `String`, `bool` and `serde_json::Value`.  The concrete table (which struct has which members,
  renames, options) is regenerated from the Rust source into Gen/IntrospectionShape.lean.

  Semantics encoded once (confirmed on the real crate, harness/examples/serde_probe.rs):
  unknown keys are ignored; an `Option` member accepts an absent key or `null`; any other member
  must be present; an internally tagged enum dispatches on its tag key wherever it stands; a `tag`
  on a struct only adds a key when serialising; `None` serialises as `null`.
-/
namespace Gql.Codec

inductive J where
  | null
  | bool (b : Bool)
  | num (repr : String)
  | str (s : String)
  | arr (l : List J)
  | obj (kvs : List (String × J))
  deriving Repr, Inhabited

inductive Shape where
  | str
  | bool
  | any                      -- serde_json::Value
  | opt (s : Shape)          -- Option<T> (Box is transparent)
  | vec (s : Shape)          -- Vec<T>
  | named (n : String)       -- a struct / enum of the table
  deriving Repr, Inhabited

structure FieldSpec where
  key : String               -- JSON key (after `rename`)
  shape : Shape
  deriving Repr, Inhabited

inductive Decl where
  /-- `selfTag = some (k, name)`: `#[serde(tag = k)]` on the struct -/
  | struct (selfTag : Option (String × String)) (fields : List FieldSpec)
  /-- internally tagged enum: tag key, variants (tag value ↦ members of the variant) -/
  | tagged (key : String) (variants : List (String × List FieldSpec))
  | unitEnum (names : List String)
  deriving Repr, Inhabited

abbrev Env := List (String × Decl)

def Env.get (env : Env) (n : String) : Option Decl := (env.find? (·.1 == n)).map (·.2)

/-- parsed values -/
inductive Val where
  | str (s : String)
  | bool (b : Bool)
  | any (j : J)
  | none
  | some (v : Val)
  | vec (l : List Val)
  | record (selfTag : Option (String × String)) (fields : List (String × Val))
  | variant (key tag : String) (fields : List (String × Val))
  | unit (name : String)
  deriving Repr, Inhabited

/-- the extra key a `tag` attribute on a struct adds when serialising -/
def tagPrefix : Option (String × String) → List (String × J)
  | some (k, n) => [(k, J.str n)]
  | none => []

mutual
/-- `serde_json::to_value` -/
def encode : Val → J
  | .str s => .str s
  | .bool b => .bool b
  | .any j => j
  | .none => .null
  | .some v => encode v
  | .vec l => .arr (encodeList l)
  | .record tag fs =>
      .obj (tagPrefix tag ++ encodeFields fs)
  | .variant key tag fs => .obj ((key, J.str tag) :: encodeFields fs)
  | .unit n => .str n
def encodeList : List Val → List J
  | [] => []
  | v :: vs => encode v :: encodeList vs
def encodeFields : List (String × Val) → List (String × J)
  | [] => []
  | (k, v) :: fs => (k, encode v) :: encodeFields fs
end

def lookup (kvs : List (String × J)) (k : String) : Option J := (kvs.find? (·.1 == k)).map (·.2)

def Shape.isOpt : Shape → Bool | .opt _ => true | _ => false

/-- members of a struct / variant, given the decoder for member values: a present key is
    decoded, an absent key is `None` for an `Option` member and an error otherwise -/
def decodeFieldsWith (dec : Shape → J → Option Val) (kvs : List (String × J)) :
    List FieldSpec → Option (List (String × Val))
  | [] => some []
  | f :: fs =>
    match (match lookup kvs f.key with
           | some j' => dec f.shape j'
           | none => if f.shape.isOpt then some Val.none else none) with
    | some v => (decodeFieldsWith dec kvs fs).map fun rest => (f.key, v) :: rest
    | none => none

def decodeListWith (dec : J → Option Val) : List J → Option (List Val)
  | [] => some []
  | x :: xs =>
    match dec x with
    | some v => (decodeListWith dec xs).map fun rest => v :: rest
    | none => none

/-- `serde_json::from_value::<T>` for the shape `σ`; fuel bounds the nesting depth -/
def decode (env : Env) : Nat → Shape → J → Option Val
  | 0, _, _ => none
  | fuel + 1, σ, j =>
    match σ, j with
    | .str, .str s => some (.str s)
    | .bool, .bool b => some (.bool b)
    | .any, j => some (.any j)
    | .opt _, .null => some .none
    | .opt σ', j => (decode env fuel σ' j).map .some
    | .vec σ', .arr l => (decodeListWith (decode env fuel σ') l).map .vec
    | .named n, j =>
      (match env.get n, j with
       | some (.struct tag fields), .obj kvs => (decodeFieldsWith (decode env fuel) kvs fields).map (.record tag)
       | some (.tagged key variants), .obj kvs =>
         (match lookup kvs key with
          | some (.str t) =>
            (match (variants.find? (·.1 == t)).map (·.2) with
             | some fields => (decodeFieldsWith (decode env fuel) kvs fields).map (.variant key t)
             | none => none)
          | _ => none)
       | some (.unitEnum names), .str s => if names.contains s then some (.unit s) else none
       | _, _ => none)
    | _, _ => none

mutual
def J.depth : J → Nat
  | .arr l => 1 + J.depthList l
  | .obj kvs => 1 + J.depthFields kvs
  | _ => 1
def J.depthList : List J → Nat
  | [] => 0
  | x :: xs => max x.depth (J.depthList xs)
def J.depthFields : List (String × J) → Nat
  | [] => 0
  | (_, x) :: xs => max x.depth (J.depthFields xs)
end

/-- enough fuel for any conversion of `j` (each level of JSON nesting uses at most three levels
    of shape: `opt`, `named`, member) -/
def fuelFor (j : J) : Nat := 4 * j.depth + 8

end Gql.Codec
