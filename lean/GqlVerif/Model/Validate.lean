/-
  Model/Validate.lean — validate.rs + rules/defaults.rs: a plan is run rule by rule over one
  shared `OperationVisitorContext` (the same stacks value is threaded from rule to rule).
-/
import GqlVerif.Model.Rules.Operations
import GqlVerif.Model.Rules.Fields
import GqlVerif.Model.Rules.Fragments
import GqlVerif.Model.Rules.Variables
import GqlVerif.Model.Rules.Arguments
import GqlVerif.Model.Rules.Directives
import GqlVerif.Model.Rules.Values
import GqlVerif.Model.Rules.Merge
namespace Gql

def ruleOf : RuleId → Rule
  | .uniqueOperationNames => uniqueOperationNames
  | .loneAnonymousOperation => loneAnonymousOperation
  | .singleFieldSubscriptions => singleFieldSubscriptions
  | .knownTypeNames => knownTypeNames
  | .fragmentsOnCompositeTypes => fragmentsOnCompositeTypes
  | .variablesAreInputTypes => variablesAreInputTypes
  | .leafFieldSelections => leafFieldSelections
  | .fieldsOnCorrectType => fieldsOnCorrectType
  | .uniqueFragmentNames => uniqueFragmentNames
  | .knownFragmentNames => knownFragmentNames
  | .noUnusedFragments => noUnusedFragments
  | .overlappingFieldsCanBeMerged => overlappingFieldsCanBeMerged
  | .noFragmentsCycle => noFragmentsCycle
  | .possibleFragmentSpreads => possibleFragmentSpreads
  | .noUnusedVariables => noUnusedVariables
  | .noUndefinedVariables => noUndefinedVariables
  | .knownArgumentNames => knownArgumentNames
  | .uniqueArgumentNames => uniqueArgumentNames
  | .uniqueVariableNames => uniqueVariableNames
  | .providedRequiredArguments => providedRequiredArguments
  | .knownDirectives => knownDirectives
  | .variablesInAllowedPosition => variablesInAllowedPosition
  | .valuesOfCorrectType => valuesOfCorrectType
  | .uniqueDirectivesPerLocation => uniqueDirectivesPerLocation

/-- run the rules of a plan one after the other on the shared context `st` -/
def runPlan (s : Schema) (d : Document) (v : V) : List RuleId → Stacks → List (List Err)
  | [], _ => []
  | r :: rs, st =>
    let res := v st
    (ruleOf r).runOn s d res.2 :: runPlan s d v rs res.1

/-- `validate(schema, operation, plan)`; errors grouped per plan entry; `none` = panic
    (only possible when a rule walks a document with a query operation over a schema without
    query root type). -/
def validateGrouped (s : Schema) (d : Document) (plan : List RuleId) : Option (List (List Err)) :=
  match plan with
  | [] => some []
  | _ => (visitDocument s d).map fun v => runPlan s d v plan Stacks.empty

def validate (s : Schema) (d : Document) (plan : List RuleId) : Option (List Err) :=
  (validateGrouped s d plan).map List.flatten

end Gql
