/-
  Model/Rules/Directives.lean — known_directives.rs, unique_directives_per_location.rs
-/
import GqlVerif.Model.Rules.Basic
namespace Gql

def opLocation : OpKind → DirLoc
  | .mutation => .mutation
  | .query => .query
  | .shorthand => .query
  | .subscription => .subscription

def knownDirectives : Rule where
  σ := Option DirLoc      -- recent_location
  init := none
  on := fun s _ recent e =>
    match e.1 with
    | .enter (.operation o) => (some (opLocation o.kind), [])
    | .leave (.operation _) => (none, [])
    | .enter (.field _) => (some .field, [])
    | .leave (.field _) => (none, [])
    | .enter (.fragmentDef _) => (some .fragmentDefinition, [])
    | .leave (.fragmentDef _) => (none, [])
    | .enter (.spread _) => (some .fragmentSpread, [])
    | .leave (.spread _) => (none, [])
    | .enter (.inline _) => (some .inlineFragment, [])
    | .leave (.inline _) => (none, [])
    | .enter (.directive dir) =>
      (match s.directiveMapGet dir.name with
       | some dd =>
         (match recent with
          | some loc =>
            if !dd.locations.any (fun l => l == loc) then
              (recent, [⟨.knownDirectives, [dir.pos], .misplacedDirective dir.name loc⟩])
            else (recent, [])
          | none => (recent, []))
       | none => (recent, [⟨.knownDirectives, [dir.pos], .unknownDirective dir.name⟩]))
    | _ => (recent, [])

/-- `check_duplicate_directive` -/
def duplicateDirectiveErrors (s : Schema) : List Directive → List Name → List Err
  | [], _ => []
  | dir :: rest, seen =>
    match s.directiveMapGet dir.name with
    | some dd =>
      if !dd.repeatable then
        if seen.contains dir.name then
          ⟨.uniqueDirectivesPerLocation, [dir.pos], .duplicateDirective dir.name⟩
            :: duplicateDirectiveErrors s rest seen
        else duplicateDirectiveErrors s rest (dir.name :: seen)
      else duplicateDirectiveErrors s rest seen
    | none => duplicateDirectiveErrors s rest seen

/-- the per-callback check of unique_directives_per_location.rs -/
def udCheck (s : Schema) (e : Ev × Snap) : List Err :=
  match e.1 with
  | .enter (.operation o) => duplicateDirectiveErrors s o.dirs []
  | .enter (.field f) => duplicateDirectiveErrors s f.dirs []
  | .enter (.fragmentDef f) => duplicateDirectiveErrors s f.dirs []
  | .enter (.spread sp) => duplicateDirectiveErrors s sp.dirs []
  | .enter (.inline i) => duplicateDirectiveErrors s i.dirs []
  | _ => []

def uniqueDirectivesPerLocation : Rule :=
  Rule.stateless fun s _ e => udCheck s e

end Gql
