/-
  Model/Rules/Merge.lean — overlapping_fields_can_be_merged.rs, modelled in full: the ordered
  field map, the fragment-name list, the asymmetric `PairSet`, the `visited_fragments` vectors
  (one per selection set for its own fields, a fresh one for each collection of fields compared
  below it), the early exits, `field1.position` used twice.  The recursion follows fragment names and is not always terminating (finding F16),
  so every call level consumes fuel; running out = `stuck`.
-/
import GqlVerif.Model.Rules.Basic
namespace Gql

/-- `AstAndDef(parent_type, field, field_def)` -/
structure AstAndDef where
  parent : Option TypeDef
  field : FieldNode
  fdef : Option FieldDef
  deriving Inhabited

/-- `OrderedMap<&str, Vec<AstAndDef>>`: response name ↦ fields, keys in insertion order -/
abbrev FieldMap := List (Name × List AstAndDef)

/-- the type an inline fragment's selections are collected on: its (declared) type condition, else the enclosing type -/
def inlineParent (s : Schema) (tc : Option Name) (parent : Option TypeDef) : Option TypeDef :=
  match tc.bind s.typeByName with
  | some t => some t
  | none => parent

mutual
def selDepth : Selection → Nat
  | .field _ _ _ _ _ sel => 1 + selsDepth sel
  | .spread _ _ _ => 1
  | .inline _ _ _ sel => 1 + selsDepth sel
def selsDepth : List Selection → Nat
  | [] => 0
  | x :: xs => max (selDepth x) (selsDepth xs)
end

def Definition.selections : Definition → List Selection
  | .op o => o.sel
  | .frag f => f.sel

/-- maximal nesting of selections in the document -/
def docDepth : Document → Nat
  | [] => 0
  | x :: xs => max (selsDepth x.selections) (docDepth xs)

mutual
/-- `collect_fields_and_fragment_names` -/
def mergeCollectSel (s : Schema) (parent : Option TypeDef) :
    Selection → FieldMap × List Name → FieldMap × List Name
  | .field pos alias name args dirs sel, (fm, fns) =>
      let f : FieldNode := ⟨pos, alias, name, args, dirs, sel⟩
      let fd := parent.bind (·.fieldByName name)
      (alUpdate fm f.responseKey [] (· ++ [⟨parent, f, fd⟩]), fns)
  | .spread _ name _, (fm, fns) => (fm, if fns.contains name then fns else fns ++ [name])
  | .inline _ tc _ sel, acc => mergeCollectSels s (inlineParent s tc parent) sel acc
def mergeCollectSels (s : Schema) (parent : Option TypeDef) :
    List Selection → FieldMap × List Name → FieldMap × List Name
  | [], acc => acc
  | x :: xs, acc => mergeCollectSels s parent xs (mergeCollectSel s parent x acc)
end

/-- `get_fields_and_fragment_names` -/
def fieldsAndFragmentNames (s : Schema) (parent : Option TypeDef) (sel : List Selection) :
    FieldMap × List Name :=
  mergeCollectSels s parent sel ([], [])

/-- `get_referenced_fields_and_fragment_names` -/
def referencedFieldsAndFragmentNames (s : Schema) (f : FragDef) : FieldMap × List Name :=
  fieldsAndFragmentNames s (s.typeByName f.tc) f.sel

/-- `is_same_arguments` -/
def sameArguments (a b : List Arg) : Bool :=
  a.length == b.length &&
    a.all fun p => match b.find? (fun q => p.1 == q.1) with
      | some q => p.2.compare q.2
      | none => false

/-- the name denotes a scalar or enum type of the schema -/
def Schema.isLeafName (s : Schema) (n : Name) : Bool :=
  match s.typeByName n with | some t => t.isLeaf | none => false

/-- `is_type_conflict` -/
def isTypeConflict (s : Schema) : Ty → Ty → Bool
  | .list t1, .list t2 => isTypeConflict s t1 t2
  | .list _, _ => true
  | _, .list _ => true
  | .nonNull t1, .nonNull t2 => isTypeConflict s t1 t2
  | .nonNull _, _ => true
  | _, .nonNull _ => true
  | .named a, .named b =>
      if s.isLeafName a || s.isLeafName b then a != b else false

/-- the declared types of the two fields when both are known and conflict -/
def typeConflictOf (s : Schema) (a b : AstAndDef) : Option (Ty × Ty) :=
  match a.fdef, b.fdef with
  | some x, some y => if isTypeConflict s x.ty y.ty then some (x.ty, y.ty) else none
  | _, _ => none

/-- `PairSet`: both orders are stored with the same flag -/
abbrev PairSet := List ((Name × Name) × Bool)

def PairSet.containsPair (ps : PairSet) (a b : Name) (mutex : Bool) : Bool :=
  match alGet ps (a, b) with
  | some result => if !mutex then !result else true
  | none => false

def PairSet.insertPair (ps : PairSet) (a b : Name) (mutex : Bool) : PairSet :=
  alInsert (alInsert ps (a, b) mutex) (b, a) mutex

structure Conflict where
  key : Name
  reason : Reason
  pos1 : List Pos
  pos2 : List Pos
  deriving Inhabited

structure MState where
  compared : PairSet := []          -- compared_fragments (lives as long as the rule instance)
  visited : List Name := []         -- visited_fragments (per selection set)
  stuck : Bool := false
  guardHit : Bool := false          -- a `visited_fragments` early return happened (class of F15a)
  deriving Inhabited

abbrev MRes := List Conflict × MState

/-- `subfield_conflicts` (note: both position lists start with field 1's position and collect
    the *first* position lists of the nested conflicts, as in the Rust) -/
def subfieldConflicts (cs : List Conflict) (key : Name) (p1 p2 : Pos) : Option Conflict :=
  if cs.isEmpty then none
  else some ⟨key, .nested (cs.map fun c => (c.key, c.reason)),
    p1 :: cs.flatMap (·.pos1), p2 :: cs.flatMap (·.pos1)⟩

/-- append the conflict of one comparison, if any; keep its state -/
def pushConflict (acc : MRes) (r : Option Conflict × MState) : MRes :=
  (match r.1 with | some c => acc.1 ++ [c] | none => acc.1, r.2)

/-- one field of the first map against the fields of the same key in the second -/
def betweenFieldsStep (fc : Name → AstAndDef → AstAndDef → Bool → MState → Option Conflict × MState)
    (key : Name) (me : Bool) (fields2 : List AstAndDef) (acc : MRes) (f1 : AstAndDef) : MRes :=
  fields2.foldl (fun (acc : MRes) f2 => pushConflict acc (fc key f1 f2 me acc.2)) acc

/-- one entry of the first map against the entry of the same key in the second (if any) -/
def betweenKeyStep (fc : Name → AstAndDef → AstAndDef → Bool → MState → Option Conflict × MState)
    (me : Bool) (fm2 : FieldMap) (acc : MRes) (kv : Name × List AstAndDef) : MRes :=
  kv.2.foldl (betweenFieldsStep fc kv.1 me ((alGet fm2 kv.1).getD [])) acc

/-- all pairs `(x, y)` with `x` before `y` -/
def orderedPairs {α : Type} : List α → List (α × α)
  | [] => []
  | x :: xs => xs.map (fun y => (x, y)) ++ orderedPairs xs

mutual
/-- `find_conflict` -/
def findConflict (s : Schema) (d : Document) :
    Nat → Name → AstAndDef → AstAndDef → Bool → MState → Option Conflict × MState
  | 0, _, _, _, _, st => (none, { st with stuck := true })
  | n + 1, key, a, b, parentsExclusive, st =>
    if st.stuck then (none, st) else      -- a stack overflow ends everything
    let me := parentsExclusive ||
      (optName a.parent != optName b.parent && optIsObject a.parent && optIsObject b.parent)
    if !me && a.field.name != b.field.name then
      (some ⟨key, .differentFields a.field.name b.field.name, [a.field.pos], [b.field.pos]⟩, st)
    else if !me && !sameArguments a.field.args b.field.args then
      (some ⟨key, .differingArguments, [a.field.pos], [b.field.pos]⟩, st)
    else
      match typeConflictOf s a b with
      | some (x, y) => (some ⟨key, .conflictingTypes x y, [a.field.pos], [b.field.pos]⟩, st)
      | none =>
        if !a.field.sel.isEmpty && !b.field.sel.isEmpty then
          let r := betweenSubSelectionSets s d n me (a.fdef.map (·.ty.inner)) a.field.sel (b.fdef.map (·.ty.inner)) b.field.sel st
          (subfieldConflicts r.1 key a.field.pos a.field.pos, r.2)
        else (none, st)

/-- `collect_conflicts_between` -/
def conflictsBetween (s : Schema) (d : Document) :
    Nat → Bool → FieldMap → FieldMap → MState → MRes
  | 0, _, _, _, st => ([], { st with stuck := true })
  | n + 1, me, fm1, fm2, st =>
    if st.stuck then ([], st) else
    fm1.foldl (betweenKeyStep (findConflict s d n) me fm2) ([], st)

/-- `find_conflicts_between_sub_selection_sets` -/
def betweenSubSelectionSets (s : Schema) (d : Document) :
    Nat → Bool → Option Name → List Selection → Option Name → List Selection → MState → MRes
  | 0, _, _, _, _, _, st => ([], { st with stuck := true })
  | n + 1, me, pn1, sel1, pn2, sel2, st =>
    if st.stuck then ([], st) else
    let c1 := fieldsAndFragmentNames s (pn1.bind s.typeByName) sel1
    let c2 := fieldsAndFragmentNames s (pn2.bind s.typeByName) sel2
    let r := conflictsBetween s d n me c1.1 c2.1 st
    -- (I): the fragments already compared are remembered per collection of fields (a fresh list for
    -- each of the two loops); the caller's list is handed back as it was
    let outer := r.2.visited
    let r := c2.2.foldl (fun (acc : MRes) fn =>
      let x := fieldsAndFragment s d n c1.1 fn me acc.2; (acc.1 ++ x.1, x.2)) (r.1, { r.2 with visited := [] })
    let r := c1.2.foldl (fun (acc : MRes) fn =>
      let x := fieldsAndFragment s d n c2.1 fn me acc.2; (acc.1 ++ x.1, x.2)) (r.1, { r.2 with visited := [] })
    let r : MRes := (r.1, { r.2 with visited := outer })
    c1.2.foldl (fun (acc : MRes) a =>
      c2.2.foldl (fun (acc : MRes) b =>
        let x := betweenFragments s d n a b me acc.2; (acc.1 ++ x.1, x.2)) acc) r

/-- `collect_conflicts_between_fields_and_fragment` -/
def fieldsAndFragment (s : Schema) (d : Document) :
    Nat → FieldMap → Name → Bool → MState → MRes
  | 0, _, _, _, st => ([], { st with stuck := true })
  | n + 1, fm, fragName, me, st =>
    if st.stuck then ([], st) else
    match d.fragByName fragName with
    | none => ([], st)
    | some frag =>
      let c2 := referencedFieldsAndFragmentNames s frag
      if c2.2.contains fragName then ([], st)
      else
        let r := conflictsBetween s d n me fm c2.1 st
        -- the loop over the nested spreads: a name already visited is skipped (`continue`)
        c2.2.foldl (fun (acc : MRes) fn2 =>
          if acc.2.visited.contains fn2 then (acc.1, { acc.2 with guardHit := true })
          else
            let st' := { acc.2 with visited := acc.2.visited ++ [fn2] }
            let x := fieldsAndFragment s d n fm fn2 me st'
            (acc.1 ++ x.1, x.2)) r

/-- `collect_conflicts_between_fragments` -/
def betweenFragments (s : Schema) (d : Document) :
    Nat → Name → Name → Bool → MState → MRes
  | 0, _, _, _, st => ([], { st with stuck := true })
  | n + 1, n1, n2, me, st =>
    if st.stuck then ([], st) else
    if n1 == n2 then ([], st)
    else if st.compared.containsPair n1 n2 me then ([], st)
    else
      let st := { st with compared := st.compared.insertPair n1 n2 me }
      match d.fragByName n1, d.fragByName n2 with
      | some f1, some f2 =>
        let c1 := referencedFieldsAndFragmentNames s f1
        let c2 := referencedFieldsAndFragmentNames s f2
        let r := conflictsBetween s d n me c1.1 c2.1 st
        let r := c2.2.foldl (fun (acc : MRes) x =>
          let y := betweenFragments s d n n1 x me acc.2; (acc.1 ++ y.1, y.2)) r
        c1.2.foldl (fun (acc : MRes) x =>
          let y := betweenFragments s d n x n2 me acc.2; (acc.1 ++ y.1, y.2)) r
      | _, _ => ([], st)
end

/-- `collect_conflicts_within` -/
def conflictsWithin (s : Schema) (d : Document) (fuel : Nat) (fm : FieldMap) (st : MState) : MRes :=
  fm.foldl (fun (acc : MRes) (kv : Name × List AstAndDef) =>
    (orderedPairs kv.2).foldl (fun (acc : MRes) p =>
      pushConflict acc (findConflict s d fuel kv.1 p.1 p.2 false acc.2)) acc) ([], st)

/-- `find_conflicts_within_selection_set` -/
def conflictsWithinSelectionSet (s : Schema) (d : Document) (fuel : Nat) (parent : Option TypeDef)
    (sel : List Selection) (st : MState) : MRes :=
  let c := fieldsAndFragmentNames s parent sel
  let r := conflictsWithin s d fuel c.1 st
  -- for (i, frag_name1) in fragment_names.iter().enumerate() { (B); for frag_name2 in [i+1..] { (C) } }
  let rec loop : List Name → MRes → MRes
    | [], acc => acc
    | f1 :: rest, acc =>
      let x := fieldsAndFragment s d fuel c.1 f1 false acc.2
      let acc : MRes := (acc.1 ++ x.1, x.2)
      let acc := rest.foldl (fun (acc : MRes) f2 =>
        let y := betweenFragments s d fuel f1 f2 false acc.2; (acc.1 ++ y.1, y.2)) acc
      loop rest acc
  loop c.2 r

/-- recursion budget of the model.  The last summand is PROVED sufficient on every document without
    fragment cycles (`C03.merge_terminates_acyclic`, Lemmas/MergeTerm.lean): `2·#fragments + 4` call
    levels per unit of expanded height (find_conflict, between-sub-selection-sets, at most
    `2·#fragments` steps along chains of nested spreads, collect-conflicts-between), and the expanded
    height of a selection set of the document is at most `(#fragments + 2) · depth`.  The first two
    summands are room for cyclic documents, on which the memo table ends the real recursion (when it
    does: on some cyclic documents the real recursion is unbounded, finding F16). -/
def mergeFuel (d : Document) : Nat :=
  400 + 3 * docDepth d + (2 * d.fragments.length + 4) * ((d.fragments.length + 2) * docDepth d + 1)

structure MergeRuleState where
  compared : PairSet := []
  stuck : Bool := false
  guardHit : Bool := false
  deriving Inhabited

def overlappingFieldsCanBeMerged : Rule where
  σ := MergeRuleState
  init := {}
  on := fun s d st e =>
    match e.1 with
    | .enter (.selectionSet sel) =>
      let r := conflictsWithinSelectionSet s d (mergeFuel d) e.2.parent sel
        { compared := st.compared, visited := [], stuck := false, guardHit := false }
      ({ compared := r.2.compared, stuck := st.stuck || r.2.stuck, guardHit := st.guardHit || r.2.guardHit },
       r.1.map fun c => ⟨.overlappingFieldsCanBeMerged, c.pos1 ++ c.pos2, .fieldsConflict c.key c.reason⟩)
    | _ => (st, [])

end Gql
