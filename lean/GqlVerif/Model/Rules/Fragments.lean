/-
  Model/Rules/Fragments.lean — unique_fragment_names.rs, known_fragment_names.rs,
  known_type_names.rs, fragments_on_composite_types.rs, no_unused_fragments.rs,
  no_fragments_cycle.rs, possible_fragment_spreads.rs
-/
import GqlVerif.Model.Rules.Operations
namespace Gql

def uniqueFragmentNames : Rule where
  σ := List Name
  init := []
  on := fun _ _ seen e =>
    match e.1 with
    | .enter (.fragmentDef f) => (seen ++ [f.name], [])
    | _ => (seen, [])
  finish := fun _ _ seen =>
    (dupNames seen).map fun n => ⟨.uniqueFragmentNames, [], .uniqueFragmentName n⟩

def knownFragmentNames : Rule :=
  Rule.stateless fun _ d e =>
    match e.1 with
    | .enter (.spread sp) =>
      if (d.fragByName sp.name).isNone then [⟨.knownFragmentNames, [sp.pos], .unknownFragment sp.name⟩] else []
    | _ => []

def unknownTypeErr (s : Schema) (n : Name) (p : Pos) : List Err :=
  if (s.typeByName n).isNone && !introspectionTypeNames.contains n then
    [⟨.knownTypeNames, [p], .unknownType n⟩]
  else []

def knownTypeNames : Rule :=
  Rule.stateless fun s _ e =>
    match e.1 with
    | .enter (.fragmentDef f) => unknownTypeErr s f.tc f.pos
    | .enter (.inline i) => (match i.tc with | some c => unknownTypeErr s c i.pos | none => [])
    | .enter (.varDef v) => unknownTypeErr s v.ty.inner v.pos
    | _ => []

def fragmentsOnCompositeTypes : Rule :=
  Rule.stateless fun s _ e =>
    match e.1 with
    | .enter (.inline i) =>
      (match i.tc with
       | some c => (match s.typeByName c with
          | some t => if !t.isComposite then [⟨.fragmentsOnCompositeTypes, [i.pos], .inlineOnNonComposite c⟩] else []
          | none => [])
       | none => [])
    | .enter (.fragmentDef f) =>
      (match s.typeByName f.tc with
       | some t => if !t.isComposite then [⟨.fragmentsOnCompositeTypes, [f.pos], .fragmentOnNonComposite f.name f.tc⟩] else []
       | none => [])
    | _ => []

structure UnusedState where
  cur : Option Name := none                     -- current_fragment
  opSpreads : List Name := []                   -- spreads_in_operations
  fragSpreads : List (Name × List Name) := []   -- spreads_in_fragments
  deriving Inhabited

def fragSucc (fragSpreads : List (Name × List Name)) (n : Name) : List Name := (alGet fragSpreads n).getD []

def unusedFuel (st : UnusedState) : Nat :=
  st.opSpreads.length + (st.fragSpreads.map fun p => p.2.length).sum + 1

/-- `mark_used` from every spread within an operation -/
def UnusedState.used (st : UnusedState) : Reach Name :=
  st.opSpreads.foldl (fun r n => dfs (fragSucc st.fragSpreads) (unusedFuel st) n r) {}

def noUnusedFragments : Rule where
  σ := UnusedState
  init := {}
  on := fun _ d st e =>
    match e.1 with
    | .enter (.fragmentDef f) => ({ st with cur := some f.name }, [])
    | .leave (.fragmentDef _) => ({ st with cur := none }, [])
    | .enter (.spread sp) =>
      (match st.cur with
       | some f => ({ st with fragSpreads := alUpdate st.fragSpreads f [] (· ++ [sp.name]) }, [])
       | none => ({ st with opSpreads := st.opSpreads ++ [sp.name] }, []))
    | .leave (.document _) =>
      let used := st.used.visited
      (st, (d.fragNames.filter fun n => !used.contains n).map fun n =>
        ⟨.noUnusedFragments, [], .unusedFragment n⟩)
    | _ => (st, [])

/-! ### no_fragments_cycle -/

structure CycleState where
  visited : List Name := []
  errs : List Err := []
  stuck : Bool := false
  deriving Inhabited

def cycleError (spreadName : Name) (cyclePath : List SpreadNode) : Err :=
  let via := cyclePath.dropLast.map (·.name)
  ⟨.noFragmentsCycle, cyclePath.map (·.pos),
    if via.isEmpty then .cycleSelf spreadName else .cycleVia spreadName via⟩

/-- one spread of the fragment being scanned: a spread of a fragment on the current path is a
    cycle; otherwise descend into its definition (`recur`), if there is one -/
def cycleStep (d : Document)
    (recur : FragDef → List SpreadNode → List (Name × Nat) → CycleState → CycleState)
    (path : List SpreadNode) (idx' : List (Name × Nat)) (st : CycleState) (sp : SpreadNode) : CycleState :=
  match alGet idx' sp.name with
  | none =>
    (match d.fragByName sp.name with
     | some fd => recur fd (path ++ [sp]) idx' st
     | none => st)
  | some ci => { st with errs := st.errs ++ [cycleError sp.name ((path ++ [sp]).drop ci)] }

/-- `detect_cycles`; `path` = `spread_paths`, `idx` = `spread_path_index_by_name` (both restored by
    the Rust code on the way back, so they are passed down by value).  Fuel bounds the depth. -/
def detectCycles (d : Document) : Nat → FragDef → List SpreadNode → List (Name × Nat) → CycleState → CycleState
  | 0, _, _, _, st => { st with stuck := true }
  | n + 1, frag, path, idx, st =>
    if st.visited.contains frag.name then st
    else
      let st := { st with visited := frag.name :: st.visited }
      let spreads := recursiveSpreads frag.sel
      if spreads.isEmpty then st
      else spreads.foldl (cycleStep d (detectCycles d n) path (alInsert idx frag.name path.length)) st

def noFragmentsCycle : Rule where
  σ := CycleState
  init := {}
  on := fun _ d st e =>
    match e.1 with
    | .enter (.fragmentDef f) =>
      let st' := detectCycles d (d.fragments.length + 1) f [] [] { st with errs := [] }
      (st', st'.errs)
    | _ => (st, [])

def possibleFragmentSpreads : Rule :=
  Rule.stateless fun s d e =>
    match e.1 with
    | .enter (.inline _) =>
      (match e.2.cur, e.2.parent with
       | some fragT, some parentT =>
         if fragT.isComposite && parentT.isComposite && !doTypesOverlap s fragT parentT then
           [⟨.possibleFragmentSpreads, [], .inlineNotSpreadable parentT.name fragT.name⟩]
         else []
       | _, _ => [])
    | .enter (.spread sp) =>
      (match d.fragByName sp.name with
       | some frag =>
         (match s.typeByName frag.tc, e.2.parent with
          | some fragT, some parentT =>
            if fragT.isComposite && parentT.isComposite && !doTypesOverlap s fragT parentT then
              [⟨.possibleFragmentSpreads, [], .fragmentNotSpreadable frag.name parentT.name frag.tc⟩]
            else []
          | _, _ => [])
       | none => [])
    | _ => []

end Gql
