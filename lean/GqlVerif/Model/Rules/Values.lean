/-
  Model/Rules/Values.lean — values_of_correct_type.rs (with the repairs F9-F11 in place)
-/
import GqlVerif.Model.Rules.Basic
namespace Gql

def isCustomScalarName (n : Name) : Bool :=
  !(n == nString || n == nInt || n == nFloat || n == nBoolean || n == nID)

def fitsInt32 (i : Int) : Bool := decide (-2147483648 ≤ i) && decide (i ≤ 2147483647)

/-- the accepted (built-in scalar, literal kind) combinations -/
def scalarAccepts (n : Name) (v : Value) : Bool :=
  match v with
  | .int i => (n == nInt && fitsInt32 i) || n == nID || n == nFloat
  | .str _ => n == nID || n == nString
  | .float _ => n == nFloat
  | .bool _ => n == nBoolean
  | _ => false

/-- `validate_value` (called for scalar and enum literals) -/
def validateValue (s : Schema) (sn : Snap) (raw : Value) : List Err :=
  match sn.inpLit with
  | none => []
  | some t =>
    let named := t.inner
    match s.typeByName named with
    | none => []
    | some td =>
      (if !td.isLeaf then [⟨.valuesOfCorrectType, [], .expectedTypeFound named raw⟩] else [])
      ++ (match td with
          | .scalar n =>
            if scalarAccepts n raw then []
            else if isCustomScalarName n then []
            else [⟨.valuesOfCorrectType, [], .expectedTypeFound n raw⟩]
          | .enum n values =>
            (match raw with
             | .enum v => if !values.any (fun x => x == v) then [⟨.valuesOfCorrectType, [], .enumValueMissing v n⟩] else []
             | other => [⟨.valuesOfCorrectType, [], .enumNonEnumValue n other⟩])
          | _ => [])

/-- `validate_composite_value` (list / object literals) -/
def validateCompositeValue (s : Schema) (sn : Snap) (raw : Value) : List Err :=
  match sn.inpLit with
  | none => []
  | some t =>
    let named := t.inner
    match s.typeByName named with
    | none => []
    | some td =>
      let mismatch := match td with
        | .scalar n => !isCustomScalarName n
        | .enum _ _ => true
        | .inputObject _ _ => (match raw with | .list _ => true | _ => false)
        | _ => false
      if mismatch then [⟨.valuesOfCorrectType, [], .expectedTypeFound named raw⟩] else []

def expectsList : Option Ty → Bool
  | some (.list _) => true
  | some (.nonNull (.list _)) => true
  | _ => false

def valuesOfCorrectType : Rule :=
  Rule.stateless fun s _ e =>
    match e.1 with
    | .enter .nullValue =>
      (match e.2.inpLit with
       | some t => if t.isNonNull then [⟨.valuesOfCorrectType, [], .expectedNonNullFoundNull t⟩] else []
       | none => [])
    | .enter (.list vs) =>
      if !expectsList e.2.inpLit then validateCompositeValue s e.2 (.list vs) else []
    | .enter (.object fs) =>
      validateCompositeValue s e.2 (.obj fs)
      ++ (match e.2.inp with
          | some (.inputObject n fields) =>
            ((fields.filter fun f => f.isRequired && !fs.any (fun kv => kv.1 == f.name)).map fun f =>
              ⟨.valuesOfCorrectType, [], .requiredInputFieldMissing n f.name f.ty⟩)
            ++ ((fs.filter fun kv => !fields.any (fun f => f.name == kv.1)).map fun kv =>
              ⟨.valuesOfCorrectType, [], .unknownInputField kv.1 n⟩)
          | _ => [])
    | .enter (.enumValue v) => validateValue s e.2 (.enum v)
    | .enter (.scalar v) => validateValue s e.2 v
    | _ => []

end Gql
