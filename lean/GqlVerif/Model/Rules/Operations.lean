/-
  Model/Rules/Operations.lean — unique_operation_names.rs, lone_anonymous_operation.rs,
  single_field_subscriptions.rs
-/
import GqlVerif.Model.CollectFields
namespace Gql

/-- names that occur more than once, each once (the Rust iterates a `HashMap` of counters) -/
def dupNames (seen : List Name) : List Name :=
  (seen.filter fun n => seen.count n > 1).eraseDups

def uniqueOperationNames : Rule where
  σ := List Name
  init := []
  on := fun _ _ seen e =>
    match e.1 with
    | .enter (.operation o) => (match o.name with | some n => seen ++ [n] | none => seen, [])
    | _ => (seen, [])
  finish := fun _ _ seen =>
    (dupNames seen).map fun n => ⟨.uniqueOperationNames, [], .uniqueOperationName n⟩

def loneAnonymousOperation : Rule :=
  Rule.stateless fun _ _ e =>
    match e.1 with
    | .enter (.document d) =>
      let count := d.operations.length
      d.operations.filterMap fun o =>
        if o.name.isNone && count > 1 then
          some ⟨.loneAnonymousOperation, if o.kind == .shorthand then [] else [o.pos], .loneAnonymous⟩
        else none
    | _ => []

def singleFieldSubscriptions : Rule :=
  Rule.stateless fun s d e =>
    match e.1 with
    | .enter (.operation o) =>
      if o.kind == .subscription then
        match s.subscriptionType with
        | some st =>
          let groups := (collectFields s d st o.sel).groups
          (if groups.length > 1 then [⟨.singleFieldSubscriptions, [o.pos], .subscriptionSingle o.name⟩] else [])
          ++ (groups.filter fun g => g.2.any fun f => f.name.dunder).map fun _ =>
              ⟨.singleFieldSubscriptions, [o.pos], .subscriptionIntrospection o.name⟩
        | none => []
      else []
    | _ => []

end Gql
