/-
  Model/Rules/Basic.lean — what every validation rule shares: rule ids, errors, message shapes,
  the rule interface (a fold over the visitor's callbacks) and the context data rules read
  (`known_fragments`, `directives`).
-/
import GqlVerif.Model.Visitor
namespace Gql

inductive RuleId where
  | uniqueOperationNames | loneAnonymousOperation | singleFieldSubscriptions | knownTypeNames
  | fragmentsOnCompositeTypes | variablesAreInputTypes | leafFieldSelections | fieldsOnCorrectType
  | uniqueFragmentNames | knownFragmentNames | noUnusedFragments | overlappingFieldsCanBeMerged
  | noFragmentsCycle | possibleFragmentSpreads | noUnusedVariables | noUndefinedVariables
  | knownArgumentNames | uniqueArgumentNames | uniqueVariableNames | providedRequiredArguments
  | knownDirectives | variablesInAllowedPosition | valuesOfCorrectType | uniqueDirectivesPerLocation
  deriving DecidableEq, Repr, Inhabited

def RuleId.all : List RuleId :=
  [.uniqueOperationNames, .loneAnonymousOperation, .singleFieldSubscriptions, .knownTypeNames,
   .fragmentsOnCompositeTypes, .variablesAreInputTypes, .leafFieldSelections, .fieldsOnCorrectType,
   .uniqueFragmentNames, .knownFragmentNames, .noUnusedFragments, .overlappingFieldsCanBeMerged,
   .noFragmentsCycle, .possibleFragmentSpreads, .noUnusedVariables, .noUndefinedVariables,
   .knownArgumentNames, .uniqueArgumentNames, .uniqueVariableNames, .providedRequiredArguments,
   .knownDirectives, .variablesInAllowedPosition, .valuesOfCorrectType, .uniqueDirectivesPerLocation]

/-- reason of a field-merging conflict (`ConflictReasonMessage`) -/
inductive Reason where
  | differentFields (a b : Name)
  | differingArguments
  | conflictingTypes (t1 t2 : Ty)
  | nested (subs : List (Name × Reason))
  deriving Repr, Inhabited

/-- One constructor per `format!` in the rules, with its parameters. Rendered by the driver. -/
inductive Msg where
  | uniqueOperationName (n : Name)
  | loneAnonymous
  | subscriptionSingle (op : Option Name)
  | subscriptionIntrospection (op : Option Name)
  | unknownType (n : Name)
  | inlineOnNonComposite (t : Name)
  | fragmentOnNonComposite (frag t : Name)
  | variableNonInput (v : Name) (t : Ty)
  | leafWithSelection (f : Name) (t : Ty)
  | compositeWithoutSelection (f : Name) (t : Ty)
  | typenameAtSubscriptionRoot
  | cannotQueryField (f t : Name)
  | uniqueFragmentName (n : Name)
  | unknownFragment (n : Name)
  | unusedFragment (n : Name)
  | fieldsConflict (key : Name) (r : Reason)
  | cycleSelf (n : Name)
  | cycleVia (n : Name) (via : List Name)
  | inlineNotSpreadable (parent frag : Name)
  | fragmentNotSpreadable (frag parent fragType : Name)
  | unusedVariable (v : Name) (op : Option Name)
  | undefinedVariable (v : Name) (op : Option Name)
  | unknownArgOnField (arg type field : Name)
  | unknownArgOnDirective (arg dir : Name)
  | uniqueArgument (n : Name)
  | uniqueVariable (n : Name)
  | missingFieldArg (field arg : Name) (t : Ty)
  | missingDirectiveArg (dir arg : Name) (t : Ty)
  | misplacedDirective (dir : Name) (loc : DirLoc)
  | unknownDirective (dir : Name)
  | badVariablePosition (v : Name) (varTy locTy : Ty)
  | expectedTypeFound (t : Name) (v : Value)
  | expectedNonNullFoundNull (t : Ty)
  | enumValueMissing (v e : Name)
  | enumNonEnumValue (e : Name) (v : Value)
  | requiredInputFieldMissing (type field : Name) (t : Ty)
  | unknownInputField (field type : Name)
  | duplicateDirective (n : Name)
  deriving Repr, Inhabited

structure Err where
  code : RuleId
  locs : List Pos
  msg : Msg
  deriving Repr, Inhabited

/-! ### Context data -/

def Document.fragments : Document → List FragDef
  | [] => []
  | .frag f :: rest => f :: Document.fragments rest
  | _ :: rest => Document.fragments rest

def Document.operations : Document → List Operation
  | [] => []
  | .op o :: rest => o :: Document.operations rest
  | _ :: rest => Document.operations rest

/-- `known_fragments.get(name)`: a `HashMap::from_iter`, so the last definition of a name wins -/
def Document.fragByName (d : Document) (n : Name) : Option FragDef :=
  d.fragments.reverse.find? (·.name == n)

/-- keys of `known_fragments` (distinct names; iteration order of the real map is arbitrary) -/
def Document.fragNames (d : Document) : List Name := (d.fragments.map (·.name)).eraseDups

/-! ### Rule interface -/

/-- A rule is a fold over the callbacks `(event, context answers)` of one document walk, with a
    final step (errors the Rust code reports after `visit_document` returns). -/
structure Rule where
  σ : Type
  init : σ
  on : Schema → Document → σ → Ev × Snap → σ × List Err
  finish : Schema → Document → σ → List Err := fun _ _ _ => []

def Rule.step (r : Rule) (s : Schema) (d : Document) (acc : r.σ × List Err) (e : Ev × Snap) :
    r.σ × List Err :=
  let res := r.on s d acc.1 e
  (res.1, acc.2 ++ res.2)

/-- errors of a rule on a given callback trace -/
def Rule.runOn (r : Rule) (s : Schema) (d : Document) (tr : Trace) : List Err :=
  let res := tr.foldl (r.step s d) (r.init, [])
  res.2 ++ r.finish s d res.1

/-- a rule with no state whose callbacks report independently -/
def Rule.stateless (check : Schema → Document → Ev × Snap → List Err) : Rule :=
  { σ := Unit, init := (), on := fun s d _ e => ((), check s d e) }

/-! small association-list helpers (HashMap entry API) -/
def alGet {κ ν : Type} [DecidableEq κ] (m : List (κ × ν)) (k : κ) : Option ν :=
  (m.find? (fun p => p.1 = k)).map (·.2)

/-- `map.insert(k, v)`: replace the value if the key is present, else add -/
def alInsert {κ ν : Type} [DecidableEq κ] (m : List (κ × ν)) (k : κ) (v : ν) : List (κ × ν) :=
  if m.any (fun p => p.1 = k) then m.map (fun p => if p.1 = k then (k, v) else p) else m ++ [(k, v)]

/-- `map.entry(k).or_default()` then update -/
def alUpdate {κ ν : Type} [DecidableEq κ] (m : List (κ × ν)) (k : κ) (dflt : ν) (f : ν → ν) : List (κ × ν) :=
  if m.any (fun p => p.1 = k) then m.map (fun p => if p.1 = k then (k, f p.2) else p) else m ++ [(k, f dflt)]

/-! ### depth-first marking (shared by the graph-walking rules) -/

structure Reach (α : Type) where
  visited : List α := []      -- in visiting (pre-)order
  stuck : Bool := false

/-- visit `x` unless already visited, then every successor of `x`, threading the visited set.
    Fuel bounds the recursion depth. -/
def dfs {α : Type} [DecidableEq α] (succ : α → List α) : Nat → α → Reach α → Reach α
  | 0, _, r => { r with stuck := true }
  | n + 1, x, r =>
    if r.visited.contains x then r
    else (succ x).foldl (fun r y => dfs succ n y r) { r with visited := r.visited ++ [x] }

end Gql
