/-
  Model/Rules/Variables.lean — unique_variable_names.rs, variables_are_input_types.rs,
  no_undefined_variables.rs, no_unused_variables.rs, variables_in_allowed_position.rs
-/
import GqlVerif.Model.Rules.Basic
namespace Gql

def uniqueVariableNames : Rule where
  σ := List (Name × Pos)          -- found_records
  init := []
  on := fun _ _ found e =>
    match e.1 with
    | .enter (.operation _) => ([], [])
    | .enter (.varDef v) =>
      (match alGet found v.name with
       | some p => (found, [⟨.uniqueVariableNames, [p, v.pos], .uniqueVariable v.name⟩])
       | none => (found ++ [(v.name, v.pos)], []))
    | _ => (found, [])

def variablesAreInputTypes : Rule :=
  Rule.stateless fun s _ e =>
    match e.1 with
    | .enter (.varDef v) =>
      (match s.typeByName v.ty.inner with
       | some t => if !t.isInput then [⟨.variablesAreInputTypes, [v.pos], .variableNonInput v.name v.ty⟩] else []
       | none => [])
    | _ => []

/-- `Scope` of the three graph-walking variable rules: keyed by operation *name* / fragment name -/
inductive Scope where
  | op (n : Option Name)
  | frag (n : Name)
  deriving DecidableEq, Repr, Inhabited

/-- successors of a scope: the fragments spread directly within it -/
def scopeSucc (spreads : List (Scope × List Name)) (sc : Scope) : List Scope :=
  ((alGet spreads sc).getD []).map .frag

/-- the DFS shared by `find_used_vars`, `find_undefined_vars`, `collect_incorrect_usages`:
    visit `from` unless already visited, then every `Fragment(spread)` recorded for it. -/
def reachScopes (spreads : List (Scope × List Name)) (fuel : Nat) (sc : Scope) (r : Reach Scope) : Reach Scope :=
  dfs (scopeSucc spreads) fuel sc r

def spreadFuel (spreads : List (Scope × List Name)) : Nat :=
  (spreads.map fun p => p.2.length).sum + 2

structure VarState where
  scope : Option Scope := none
  defined : List (Option Name × List Name) := []    -- HashMap<Option<&str>, HashSet<&str>>
  used : List (Scope × List Name) := []             -- HashMap<Scope, Vec<&str>>
  spreads : List (Scope × List Name) := []          -- HashMap<Scope, Vec<&str>>
  deriving Inhabited

/-- the five collecting handlers, identical in both rules -/
def VarState.on (st : VarState) (e : Ev) : VarState :=
  match e with
  | .enter (.operation o) =>
    { st with scope := some (.op o.name), defined := alInsert st.defined o.name [] }
  | .enter (.fragmentDef f) => { st with scope := some (.frag f.name) }
  | .enter (.spread sp) =>
    (match st.scope with
     | some sc => { st with spreads := alUpdate st.spreads sc [] (· ++ [sp.name]) }
     | none => st)
  | .enter (.varDef v) =>
    (match st.scope with
     | some (.op n) =>
       if (alGet st.defined n).isSome then
         { st with defined := alUpdate st.defined n [] fun vs => if vs.contains v.name then vs else vs ++ [v.name] }
       else st
     | _ => st)
  | .enter (.argument a) =>
    (match st.scope with
     | some sc => { st with used := alUpdate st.used sc [] (· ++ a.2.variablesInUse) }
     | none => st)
  | _ => st

/-- all variables used in the scopes reachable from operation `n` -/
def VarState.usedFrom (st : VarState) (n : Option Name) : List Name :=
  let r := reachScopes st.spreads (spreadFuel st.spreads) (.op n) {}
  r.visited.flatMap fun sc => (alGet st.used sc).getD []

def noUnusedVariables : Rule where
  σ := VarState
  init := {}
  on := fun _ _ st e =>
    match e.1 with
    | .leave (.document _) =>
      (st, st.defined.flatMap fun (n, defs) =>
        let used := st.usedFrom n
        (defs.filter fun v => !used.contains v).map fun v => ⟨.noUnusedVariables, [], .unusedVariable v n⟩)
    | ev => (st.on ev, [])

def noUndefinedVariables : Rule where
  σ := VarState
  init := {}
  on := fun _ _ st e =>
    match e.1 with
    | .leave (.document _) =>
      (st, st.defined.flatMap fun (n, defs) =>
        let used := st.usedFrom n
        ((used.filter fun v => !defs.contains v).eraseDups).map fun v =>
          ⟨.noUndefinedVariables, [], .undefinedVariable v n⟩)
    | ev => (st.on ev, [])

/-! ### variables_in_allowed_position -/

structure VipState where
  scope : Option Scope := none
  spreads : List (Scope × List Name) := []            -- HashMap<Scope, HashSet<&str>>
  usages : List (Scope × List (Name × Ty)) := []
  varDefs : List (Scope × List VarDef) := []
  deriving Inhabited

/-- the variable's type, made non-null when it has a non-null default (after the F12 fix) -/
def effectiveVarType (v : VarDef) : Ty :=
  match v.default, v.ty with
  | some dv, .list t => (match dv with | .null => .list t | _ => .nonNull (.list t))
  | some dv, .named n => (match dv with | .null => .named n | _ => .nonNull (.named n))
  | _, t => t

def vipErrors (s : Schema) (st : VipState) (defs : List VarDef) (sc : Scope) : List Err :=
  ((alGet st.usages sc).getD []).flatMap fun (vn, locTy) =>
    match defs.find? (fun vd => vd.name == vn) with
    | some vd =>
      let expected := effectiveVarType vd
      if !s.isSubtype expected locTy then
        [⟨.variablesInAllowedPosition, [vd.pos], .badVariablePosition vn expected locTy⟩]
      else []
    | none => []

def variablesInAllowedPosition : Rule where
  σ := VipState
  init := {}
  on := fun s _ st e =>
    match e.1 with
    | .leave (.document _) =>
      (st, st.varDefs.flatMap fun (sc, defs) =>
        let r := reachScopes st.spreads (spreadFuel st.spreads) sc {}
        r.visited.flatMap (vipErrors s st defs))
    | .enter (.fragmentDef f) => ({ st with scope := some (.frag f.name) }, [])
    | .enter (.operation o) => ({ st with scope := some (.op o.name) }, [])
    | .enter (.spread sp) =>
      (match st.scope with
       | some sc => ({ st with spreads := alUpdate st.spreads sc [] fun l => if l.contains sp.name then l else l ++ [sp.name] }, [])
       | none => (st, []))
    | .enter (.varDef v) =>
      (match st.scope with
       | some sc => ({ st with varDefs := alUpdate st.varDefs sc [] (· ++ [v]) }, [])
       | none => (st, []))
    | .enter (.variable vn) =>
      (match st.scope, e.2.inpLit with
       | some sc, some t => ({ st with usages := alUpdate st.usages sc [] (· ++ [(vn, t)]) }, [])
       | _, _ => (st, []))
    | _ => (st, [])

end Gql
