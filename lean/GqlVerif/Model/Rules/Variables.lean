/-
  Model/Rules/Variables.lean — unique_variable_names.rs, variables_are_input_types.rs,
  no_undefined_variables.rs, no_unused_variables.rs, variables_in_allowed_position.rs
-/
import GqlVerif.Model.Rules.Basic
namespace Gql

def uniqueVariableNames : Rule where
  σ := List (Name × Pos)          -- found_records
  init := []
  on := fun _ _ found e =>
    match e.1 with
    | .enter (.operation _) => ([], [])
    | .enter (.varDef v) =>
      (match alGet found v.name with
       | some p => (found, [⟨.uniqueVariableNames, [p, v.pos], .uniqueVariable v.name⟩])
       | none => (found ++ [(v.name, v.pos)], []))
    | _ => (found, [])

def variablesAreInputTypes : Rule :=
  Rule.stateless fun s _ e =>
    match e.1 with
    | .enter (.varDef v) =>
      (match s.typeByName v.ty.inner with
       | some t => if !t.isInput then [⟨.variablesAreInputTypes, [v.pos], .variableNonInput v.name v.ty⟩] else []
       | none => [])
    | _ => []

/-- `Scope` of the three graph-walking variable rules: an operation (told apart by its index in
    the document; the name is carried along for the messages) or a fragment name -/
inductive Scope where
  | op (i : Nat) (n : Option Name)
  | frag (n : Name)
  deriving DecidableEq, Repr, Inhabited

/-- successors of a scope: the fragments spread directly within it -/
def scopeSucc (spreads : List (Scope × List Name)) (sc : Scope) : List Scope :=
  ((alGet spreads sc).getD []).map .frag

/-- the DFS shared by `find_used_vars`, `find_undefined_vars`, `collect_incorrect_usages`:
    visit `from` unless already visited, then every `Fragment(spread)` recorded for it. -/
def reachScopes (spreads : List (Scope × List Name)) (fuel : Nat) (sc : Scope) (r : Reach Scope) : Reach Scope :=
  dfs (scopeSucc spreads) fuel sc r

def spreadFuel (spreads : List (Scope × List Name)) : Nat :=
  (spreads.map fun p => p.2.length).sum + 2

/-- The bookkeeping the three graph-walking variable rules share: the current scope, per scope
    the fragments spread and the items of interest met there (`ι`: variable names used in
    arguments / `(variable, expected type)` usages), per operation its variable definitions. -/
structure Coll (ι : Type) where
  scope : Option Scope := none
  ops : Nat := 0                                              -- operations_count
  spreads : List (Scope × List Name) := []                    -- HashMap<Scope, Vec<&str>>
  items : List (Scope × List ι) := []                         -- HashMap<Scope, Vec<..>>
  defs : List ((Nat × Option Name) × List VarDef) := []       -- per operation, in document order
  deriving Inhabited

/-- `map.entry(scope).or_default().append(items)`, not touching the map when there is nothing to add -/
def Coll.addItems {ι : Type} (st : Coll ι) (sc : Scope) (its : List ι) : Coll ι :=
  match its with
  | [] => st
  | its => { st with items := alUpdate st.items sc [] (· ++ its) }

/-- the collecting handlers; `itemsOf` says what a callback contributes to its scope -/
def Coll.on {ι : Type} (itemsOf : Ev × Snap → List ι) (st : Coll ι) (e : Ev × Snap) : Coll ι :=
  match e.1 with
  | .enter (.operation o) =>
    { st with scope := some (.op st.ops o.name), ops := st.ops + 1, defs := st.defs ++ [((st.ops, o.name), [])] }
  | .enter (.fragmentDef f) => { st with scope := some (.frag f.name) }
  | .enter (.spread sp) =>
    (match st.scope with
     | some sc => { st with spreads := alUpdate st.spreads sc [] (· ++ [sp.name]) }
     | none => st)
  | .enter (.varDef v) =>
    (match st.scope with
     | some (.op i n) => { st with defs := alUpdate st.defs (i, n) [] (· ++ [v]) }
     | _ => st)
  | _ =>
    (match st.scope with
     | some sc => st.addItems sc (itemsOf e)
     | none => st)

/-- the scopes reachable from operation `k` through fragment spreads -/
def Coll.reach {ι : Type} (st : Coll ι) (k : Nat × Option Name) : List Scope :=
  (reachScopes st.spreads (spreadFuel st.spreads) (.op k.1 k.2) {}).visited

/-- all items met in the scopes reachable from operation `k` -/
def Coll.itemsFrom {ι : Type} (st : Coll ι) (k : Nat × Option Name) : List ι :=
  (st.reach k).flatMap fun sc => (alGet st.items sc).getD []

/-- variables used in an argument value -/
def argVars (e : Ev × Snap) : List Name :=
  match e.1 with
  | .enter (.argument a) => a.2.variablesInUse
  | _ => []

/-- a variable met where the context expects an input type -/
def varUsage (e : Ev × Snap) : List (Name × Ty) :=
  match e.1, e.2.inpLit with
  | .enter (.variable vn), some t => [(vn, t)]
  | _, _ => []

def definedNames (defs : List VarDef) : List Name := (defs.map (·.name)).eraseDups

def unusedReport (st : Coll Name) : List Err :=
  st.defs.flatMap fun p =>
    let used := st.itemsFrom p.1
    ((definedNames p.2).filter fun v => !used.contains v).map fun v => ⟨.noUnusedVariables, [], .unusedVariable v p.1.2⟩

/-- a rule that collects with `Coll.on` and reports at the end of the document -/
def collRule {ι : Type} (itemsOf : Ev × Snap → List ι) (report : Schema → Coll ι → List Err) : Rule where
  σ := Coll ι
  init := {}
  on := fun s _ st e =>
    match e.1 with
    | .leave (.document _) => (st, report s st)
    | _ => (st.on itemsOf e, [])

def noUnusedVariables : Rule := collRule argVars fun _ => unusedReport

def undefinedReport (st : Coll Name) : List Err :=
  st.defs.flatMap fun p =>
    let used := st.itemsFrom p.1
    ((used.filter fun v => !(definedNames p.2).contains v).eraseDups).map fun v =>
      ⟨.noUndefinedVariables, [], .undefinedVariable v p.1.2⟩

def noUndefinedVariables : Rule := collRule argVars fun _ => undefinedReport

/-! ### variables_in_allowed_position -/

/-- the variable's type, made non-null when it has a non-null default (after the F12 fix) -/
def effectiveVarType (v : VarDef) : Ty :=
  match v.default, v.ty with
  | some dv, .list t => (match dv with | .null => .list t | _ => .nonNull (.list t))
  | some dv, .named n => (match dv with | .null => .named n | _ => .nonNull (.named n))
  | _, t => t

/-- the check of one usage against the operation's definitions -/
def vipCheck (s : Schema) (defs : List VarDef) (u : Name × Ty) : List Err :=
  match defs.find? (fun vd => vd.name == u.1) with
  | some vd =>
    if !s.isSubtype (effectiveVarType vd) u.2 then
      [⟨.variablesInAllowedPosition, [vd.pos], .badVariablePosition u.1 (effectiveVarType vd) u.2⟩]
    else []
  | none => []

def vipReport (s : Schema) (st : Coll (Name × Ty)) : List Err :=
  st.defs.flatMap fun p => (st.itemsFrom p.1).flatMap (vipCheck s p.2)

def variablesInAllowedPosition : Rule := collRule varUsage vipReport

end Gql
