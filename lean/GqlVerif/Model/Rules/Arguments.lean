/-
  Model/Rules/Arguments.lean — known_argument_names.rs, unique_argument_names.rs,
  provided_required_arguments.rs
-/
import GqlVerif.Model.Rules.Operations
namespace Gql

inductive ArgParent where
  | field (fieldName typeName : Name)
  | directive (name : Name)
  deriving Repr, Inhabited

def knownArgumentNames : Rule where
  σ := Option (ArgParent × List InputValueDef)     -- current_known_arguments
  init := none
  on := fun s _ slot e =>
    match e.1 with
    | .enter (.directive dir) =>
      (match s.directiveByName dir.name with
       | some dd => (some (.directive dd.name, dd.args), [])
       | none => (none, []))
    | .leave (.directive _) => (none, [])
    | .enter (.field f) =>
      (match e.2.parent with
       | some parent =>
         (match parent.fieldByName f.name with
          | some fd => (some (.field fd.name parent.name, fd.args), [])
          | none => (none, []))
       | none => (none, []))
    | .leave (.field _) => (none, [])
    | .enter (.argument a) =>
      (match slot with
       | some (p, defs) =>
         if !defs.any (fun d => d.name == a.1) then
           (slot, [⟨.knownArgumentNames, [],
             match p with
             | .field fn tn => .unknownArgOnField a.1 tn fn
             | .directive dn => .unknownArgOnDirective a.1 dn⟩])
         else (slot, [])
       | none => (slot, []))
    | _ => (slot, [])

/-- `collect_from_arguments` + the report loop: one error per argument name used more than once,
    carrying the owner's position once per occurrence -/
def duplicateArgErrors (p : Pos) (args : List Arg) : List Err :=
  let names := args.map (·.1)
  (dupNames names).map fun n =>
    ⟨.uniqueArgumentNames, List.replicate (names.count n) p, .uniqueArgument n⟩

def uniqueArgumentNames : Rule :=
  Rule.stateless fun _ _ e =>
    match e.1 with
    | .enter (.field f) => duplicateArgErrors f.pos f.args
    | .enter (.directive d) => duplicateArgErrors d.pos d.args
    | _ => []

/-- `validate_arguments`: declared required arguments that are not supplied -/
def missingRequired (used : List Arg) (defs : List InputValueDef) : List InputValueDef :=
  defs.filter fun d => d.isRequired && !used.any (fun a => a.1 == d.name)

def providedRequiredArguments : Rule :=
  Rule.stateless fun s _ e =>
    match e.1 with
    | .enter (.field f) =>
      (match e.2.parent with
       | some parent =>
         (match parent.fieldByName f.name with
          | some fd => (missingRequired f.args fd.args).map fun m =>
              ⟨.providedRequiredArguments, [f.pos], .missingFieldArg f.name m.name m.ty⟩
          | none => [])
       | none => [])
    | .enter (.directive dir) =>
      (match s.directiveMapGet dir.name with
       | some dd => (missingRequired dir.args dd.args).map fun m =>
           ⟨.providedRequiredArguments, [dir.pos], .missingDirectiveArg dir.name m.name m.ty⟩
       | none => [])
    | _ => []

end Gql
