/-
  Model/Rules/Arguments.lean — known_argument_names.rs, unique_argument_names.rs,
  provided_required_arguments.rs
-/
import GqlVerif.Model.Rules.Operations
namespace Gql

inductive ArgParent where
  | field (fieldName typeName : Name)
  | directive (name : Name)
  deriving Repr, Inhabited

abbrev KaSlot := Option (ArgParent × List InputValueDef)     -- current_known_arguments

/-- `enter_directive`: the slot becomes the directive's declaration, or empty when unknown -/
def dirSlot (s : Schema) (dir : Directive) : KaSlot :=
  match s.directiveByName dir.name with
  | some dd => some (.directive dd.name, dd.args)
  | none => none

/-- `enter_field`: the slot becomes the field's declaration on the parent type, or empty -/
def fieldSlot (parent : Option TypeDef) (f : FieldNode) : KaSlot :=
  match parent with
  | some p =>
    (match p.fieldByName f.name with
     | some fd => some (.field fd.name p.name, fd.args)
     | none => none)
  | none => none

def unknownArgMsg (p : ArgParent) (a : Name) : Msg :=
  match p with
  | .field fn tn => .unknownArgOnField a tn fn
  | .directive dn => .unknownArgOnDirective a dn

/-- `enter_argument`: check one argument against the slot -/
def kaArgCheck (slot : KaSlot) (a : Arg) : List Err :=
  match slot with
  | some (p, defs) =>
    if !defs.any (fun d => d.name == a.1) then [⟨.knownArgumentNames, [], unknownArgMsg p a.1⟩] else []
  | none => []

def knownArgumentNames : Rule where
  σ := KaSlot
  init := none
  on := fun s _ slot e =>
    match e.1 with
    | .enter (.directive dir) => (dirSlot s dir, [])
    | .leave (.directive _) => (none, [])
    | .enter (.field f) => (fieldSlot e.2.parent f, [])
    | .leave (.field _) => (none, [])
    | .enter (.argument a) => (slot, kaArgCheck slot a)
    | _ => (slot, [])

/-- `collect_from_arguments` + the report loop: one error per argument name used more than once,
    carrying the owner's position once per occurrence -/
def duplicateArgErrors (p : Pos) (args : List Arg) : List Err :=
  let names := args.map (·.1)
  (dupNames names).map fun n =>
    ⟨.uniqueArgumentNames, List.replicate (names.count n) p, .uniqueArgument n⟩

def uniqueArgumentNames : Rule :=
  Rule.stateless fun _ _ e =>
    match e.1 with
    | .enter (.field f) => duplicateArgErrors f.pos f.args
    | .enter (.directive d) => duplicateArgErrors d.pos d.args
    | _ => []

/-- `validate_arguments`: declared required arguments that are not supplied -/
def missingRequired (used : List Arg) (defs : List InputValueDef) : List InputValueDef :=
  defs.filter fun d => d.isRequired && !used.any (fun a => a.1 == d.name)

def providedRequiredArguments : Rule :=
  Rule.stateless fun s _ e =>
    match e.1 with
    | .enter (.field f) =>
      (match e.2.parent with
       | some parent =>
         (match parent.fieldByName f.name with
          | some fd => (missingRequired f.args fd.args).map fun m =>
              ⟨.providedRequiredArguments, [f.pos], .missingFieldArg f.name m.name m.ty⟩
          | none => [])
       | none => [])
    | .enter (.directive dir) =>
      (match s.directiveMapGet dir.name with
       | some dd => (missingRequired dir.args dd.args).map fun m =>
           ⟨.providedRequiredArguments, [dir.pos], .missingDirectiveArg dir.name m.name m.ty⟩
       | none => [])
    | _ => []

end Gql
