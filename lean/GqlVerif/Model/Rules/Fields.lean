/-
  Model/Rules/Fields.lean — leaf_field_selections.rs, fields_on_correct_type.rs
-/
import GqlVerif.Model.Rules.Basic
namespace Gql

def leafFieldSelections : Rule :=
  Rule.stateless fun _ _ e =>
    match e.1 with
    | .enter (.field f) =>
      match e.2.cur, e.2.curLit with
      | some t, some lit =>
        if t.isLeaf then
          (if f.sel.length > 0 then [⟨.leafFieldSelections, [f.pos], .leafWithSelection f.name lit⟩] else [])
        else if f.sel.length == 0 then
          [⟨.leafFieldSelections, [f.pos], .compositeWithoutSelection f.name lit⟩]
        else []
      | _, _ => []
    | _ => []

/-- top-level `__typename` fields of a subscription's selection set (not through fragments) -/
def rootTypenameFields : List Selection → List Pos
  | [] => []
  | .field p _ n _ _ _ :: rest => if n == nTypename then p :: rootTypenameFields rest else rootTypenameFields rest
  | _ :: rest => rootTypenameFields rest

def fieldsOnCorrectType : Rule :=
  Rule.stateless fun s _ e =>
    match e.1 with
    | .enter (.operation o) =>
      if o.kind == .subscription then
        (rootTypenameFields o.sel).map fun _ => ⟨.fieldsOnCorrectType, [o.pos], .typenameAtSubscriptionRoot⟩
      else []
    | .enter (.field f) =>
      match e.2.parent with
      | some parent =>
        if f.name == nTypename then []
        else if (f.name == nSchemaField || f.name == nTypeField)
            && parent.name == s.schemaDefinition.query.getD nQuery then []
        else if (parent.fieldByName f.name).isNone then
          [⟨.fieldsOnCorrectType, [f.pos], .cannotQueryField f.name parent.name⟩]
        else []
      | none => []
    | _ => []

end Gql
