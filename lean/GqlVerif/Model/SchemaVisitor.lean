/-
  Model/SchemaVisitor.lean — model of src/ast/schema_visitor.rs (`visit_schema_document`):
  the loop over definitions with its nested loops, emitting one event per trait-method call;
  `none` = the `panic!` on a type extension.
-/
import GqlVerif.Model.Ext
namespace Gql

/-- Payload of a schema-visitor callback (field callbacks also receive the owning type). -/
inductive SNode where
  | document
  | schemaDef (d : SchemaDef)
  | directiveDef (d : DirectiveDef)
  | typeDef (t : TypeDef)
  | objectType (t : TypeDef)
  | objectField (f : FieldDef) (owner : Name)
  | interfaceType (t : TypeDef)
  | interfaceField (f : FieldDef) (owner : Name)
  | scalarType (t : TypeDef)
  | enumType (t : TypeDef)
  | enumValue (v : Name) (owner : Name)
  | unionType (t : TypeDef)
  | inputObjectType (t : TypeDef)
  | inputField (f : InputValueDef) (owner : Name)
  deriving Repr, Inhabited

inductive SEv where
  | enter (n : SNode)
  | leave (n : SNode)
  deriving Repr, Inhabited

def svFields (mk : FieldDef → SNode) : List FieldDef → List SEv
  | [] => []
  | f :: fs => .enter (mk f) :: .leave (mk f) :: svFields mk fs

def svInputFields (owner : Name) : List InputValueDef → List SEv
  | [] => []
  | f :: fs => .enter (.inputField f owner) :: .leave (.inputField f owner) :: svInputFields owner fs

def svEnumValues (owner : Name) : List Name → List SEv
  | [] => []
  | v :: vs => .enter (.enumValue v owner) :: .leave (.enumValue v owner) :: svEnumValues owner vs

def svTypeBody (t : TypeDef) : List SEv :=
  match t with
  | .object n _ fs =>
      [.enter (.objectType t)] ++ svFields (fun f => .objectField f n) fs ++ [.leave (.objectType t)]
  | .scalar _ => [.enter (.scalarType t), .leave (.scalarType t)]
  | .enum n vs => [.enter (.enumType t)] ++ svEnumValues n vs ++ [.leave (.enumType t)]
  | .union _ _ => [.enter (.unionType t), .leave (.unionType t)]
  | .inputObject n fs =>
      [.enter (.inputObjectType t)] ++ svInputFields n fs ++ [.leave (.inputObjectType t)]
  | .interface n _ fs =>
      [.enter (.interfaceType t)] ++ svFields (fun f => .interfaceField f n) fs ++ [.leave (.interfaceType t)]

/-- the `for definition in &document.definitions` loop; `none` = panic -/
def svDefinitions : Schema → Option (List SEv)
  | [] => some []
  | .schema d :: rest => (svDefinitions rest).map ([.enter (.schemaDef d), .leave (.schemaDef d)] ++ ·)
  | .type t :: rest =>
      (svDefinitions rest).map ([.enter (.typeDef t)] ++ svTypeBody t ++ [.leave (.typeDef t)] ++ ·)
  | .directive d :: rest =>
      (svDefinitions rest).map ([.enter (.directiveDef d), .leave (.directiveDef d)] ++ ·)
  | .ext :: _ => none

def schemaVisit (s : Schema) : Option (List SEv) :=
  (svDefinitions s).map fun es => [.enter .document] ++ es ++ [.leave .document]

end Gql
