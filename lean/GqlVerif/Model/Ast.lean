/-
  Model/Ast.lean — data of the model: interned names, the executable-document AST of
  graphql-parser (positions kept on exactly the nodes that have one), and the schema AST.
  No Mathlib, no Std imports: this file is linked into the driver executable.
-/
namespace Gql

/-- Identifiers are interned by the harness.  Names that start with `__` get odd ids,
    all other names even ids, so "is an introspection-style name" is `n % 2 = 1`. -/
abbrev Name := Nat

def Name.dunder (n : Name) : Bool := n % 2 == 1

/-! Reserved ids (fixed meaning; the harness's intern table starts with them). -/
def nQuery : Name := 0
def nMutation : Name := 2
def nSubscription : Name := 4
def nInt : Name := 6
def nFloat : Name := 8
def nString : Name := 10
def nBoolean : Name := 12
def nID : Name := 14
def nTypename : Name := 1      -- __typename
def nSchemaField : Name := 3   -- __schema
def nTypeField : Name := 5     -- __type
/-- `__Schema __Directive __DirectiveLocation __Type __Field __InputValue __EnumValue __TypeKind` -/
def introspectionTypeNames : List Name := [7, 9, 11, 13, 15, 17, 19, 21]

structure Pos where
  line : Nat
  col : Nat
  deriving DecidableEq, Repr, Inhabited

inductive Ty where
  | named (n : Name)
  | list (t : Ty)
  | nonNull (t : Ty)
  deriving DecidableEq, Repr, Inhabited

/-- Input values.  `float`/`str` carry the intern id of their content (floats: of their
    printed form; `-0.0` and NaN are never generated).  Object entries arrive in
    `BTreeMap` order. -/
inductive Value where
  | var (n : Name)
  | int (i : Int)
  | float (id : Nat)
  | str (id : Nat)
  | bool (b : Bool)
  | null
  | enum (n : Name)
  | list (vs : List Value)
  | obj (fs : List (Name × Value))
  deriving Repr, Inhabited

abbrev Arg := Name × Value

structure Directive where
  pos : Pos
  name : Name
  args : List Arg
  deriving Repr, Inhabited

inductive Selection where
  | field (pos : Pos) (alias : Option Name) (name : Name) (args : List Arg)
          (dirs : List Directive) (sel : List Selection)
  | spread (pos : Pos) (name : Name) (dirs : List Directive)
  | inline (pos : Pos) (tc : Option Name) (dirs : List Directive) (sel : List Selection)
  deriving Repr, Inhabited

/-- A field node, as handed to callbacks (same data as `Selection.field`). -/
structure FieldNode where
  pos : Pos
  alias : Option Name
  name : Name
  args : List Arg
  dirs : List Directive
  sel : List Selection
  deriving Repr, Inhabited

structure SpreadNode where
  pos : Pos
  name : Name
  dirs : List Directive
  deriving Repr, Inhabited

structure InlineNode where
  pos : Pos
  tc : Option Name
  dirs : List Directive
  sel : List Selection
  deriving Repr, Inhabited

def FieldNode.toSel (f : FieldNode) : Selection := .field f.pos f.alias f.name f.args f.dirs f.sel
def SpreadNode.toSel (f : SpreadNode) : Selection := .spread f.pos f.name f.dirs
def InlineNode.toSel (f : InlineNode) : Selection := .inline f.pos f.tc f.dirs f.sel

def FieldNode.responseKey (f : FieldNode) : Name := f.alias.getD f.name

structure VarDef where
  pos : Pos
  name : Name
  ty : Ty
  default : Option Value
  deriving Repr, Inhabited

inductive OpKind where
  | query | mutation | subscription | shorthand
  deriving DecidableEq, Repr, Inhabited

/-- The four `OperationDefinition` variants.  For `shorthand` (`OperationDefinition::SelectionSet`)
    `name = none`, `vars = []`, `dirs = []` and `pos` is unused (the decoder enforces this). -/
structure Operation where
  kind : OpKind
  pos : Pos
  name : Option Name
  vars : List VarDef
  dirs : List Directive
  sel : List Selection
  deriving Repr, Inhabited

structure FragDef where
  pos : Pos
  name : Name
  tc : Name
  dirs : List Directive
  sel : List Selection
  deriving Repr, Inhabited

inductive Definition where
  | op (o : Operation)
  | frag (f : FragDef)
  deriving Repr, Inhabited

abbrev Document := List Definition

/-! ### Schema side -/

structure InputValueDef where
  name : Name
  ty : Ty
  default : Option Value
  deriving Repr, Inhabited

structure FieldDef where
  name : Name
  args : List InputValueDef
  ty : Ty
  deriving Repr, Inhabited

inductive TypeDef where
  | scalar (name : Name)
  | object (name : Name) (ifaces : List Name) (fields : List FieldDef)
  | interface (name : Name) (ifaces : List Name) (fields : List FieldDef)
  | union (name : Name) (members : List Name)
  | enum (name : Name) (values : List Name)
  | inputObject (name : Name) (fields : List InputValueDef)
  deriving Repr, Inhabited

/-- The seven executable directive locations, and `other` for the type-system ones. -/
inductive DirLoc where
  | query | mutation | subscription | field | fragmentDefinition | fragmentSpread | inlineFragment
  | other (n : Nat)
  deriving DecidableEq, Repr, Inhabited

structure DirectiveDef where
  name : Name
  repeatable : Bool
  locations : List DirLoc
  args : List InputValueDef
  deriving Repr, Inhabited

structure SchemaDef where
  query : Option Name
  mutation : Option Name
  subscription : Option Name
  deriving Repr, Inhabited, DecidableEq

inductive SDef where
  | schema (d : SchemaDef)
  | type (t : TypeDef)
  | directive (d : DirectiveDef)
  | ext
  deriving Repr, Inhabited

abbrev Schema := List SDef

end Gql
