/-
  Model/Visitor.lean — model of src/ast/operation_visitor.rs as a stack machine.
  `Stacks` are the six private vectors of `OperationVisitorContext`; `withType`, `withParentType`,
  `withField`, `withInputType` are `push; body; pop` exactly as written in the Rust.  The
  traversal emits one `(Ev, Snap)` per trait-method call: the event with its payload and the
  answers of the six `current_*` accessors (plus the stack depths) *at that callback*.
-/
import GqlVerif.Model.Ext
namespace Gql

/-- Payload of a callback; one constructor per enter/leave pair of `OperationVisitor`. -/
inductive Node where
  | document (d : Document)
  | operation (o : Operation)
  | fragmentDef (f : FragDef)
  | varDef (v : VarDef)
  | directive (d : Directive)
  | argument (a : Arg)
  | selectionSet (s : List Selection)
  | field (f : FieldNode)
  | spread (s : SpreadNode)
  | inline (i : InlineNode)
  | nullValue
  | scalar (v : Value)
  | enumValue (n : Name)
  | variable (n : Name)
  | list (vs : List Value)
  | object (fs : List (Name × Value))
  | objectField (f : Name × Value)
  deriving Repr, Inhabited

inductive Ev where
  | enter (n : Node)
  | leave (n : Node)
  deriving Repr, Inhabited

/-- The six stacks (head = top). -/
structure Stacks where
  ty : List (Option TypeDef) := []
  parent : List (Option TypeDef) := []
  inp : List (Option TypeDef) := []
  tyLit : List (Option Ty) := []
  inpLit : List (Option Ty) := []
  field : List (Option FieldDef) := []
  deriving Repr, Inhabited

def Stacks.empty : Stacks := {}

/-- `stack.last().unwrap_or(&None)` -/
def top {α : Type} : List (Option α) → Option α
  | [] => none
  | x :: _ => x

/-- What the context answers at a callback. -/
structure Snap where
  cur : Option TypeDef        -- current_type()
  curLit : Option Ty          -- current_type_literal()
  parent : Option TypeDef     -- current_parent_type()
  field : Option FieldDef     -- current_field()
  inp : Option TypeDef        -- current_input_type()
  inpLit : Option Ty          -- current_input_type_literal()
  dTy : Nat
  dParent : Nat
  dInp : Nat
  dTyLit : Nat
  dInpLit : Nat
  dField : Nat
  deriving Repr, Inhabited

def Stacks.snap (st : Stacks) : Snap :=
  { cur := top st.ty, curLit := top st.tyLit, parent := top st.parent, field := top st.field,
    inp := top st.inp, inpLit := top st.inpLit,
    dTy := st.ty.length, dParent := st.parent.length, dInp := st.inp.length,
    dTyLit := st.tyLit.length, dInpLit := st.inpLit.length, dField := st.field.length }

def Snap.empty : Snap := Stacks.empty.snap

abbrev Trace := List (Ev × Snap)

/-- A traversal step: runs on the stacks, returns them and the callbacks made. -/
abbrev V := Stacks → Stacks × Trace

def V.skip : V := fun st => (st, [])
def emit (e : Ev) : V := fun st => (st, [(e, st.snap)])
def V.seq (a b : V) : V := fun st =>
  let r1 := a st
  let r2 := b r1.1
  (r2.1, r1.2 ++ r2.2)

infixr:60 " ⨾ " => V.seq

/-- `type_by_name(t.inner_type())` for an optional type reference -/
def Schema.resolve (s : Schema) (t : Option Ty) : Option TypeDef :=
  t.bind fun t => s.typeByName t.inner

def withType (s : Schema) (t : Option Ty) (body : V) : V := fun st =>
  let r := body { st with ty := s.resolve t :: st.ty, tyLit := t :: st.tyLit }
  ({ r.1 with tyLit := r.1.tyLit.tail, ty := r.1.ty.tail }, r.2)

def withParentType (body : V) : V := fun st =>
  let r := body { st with parent := top st.ty :: st.parent }
  ({ r.1 with parent := r.1.parent.tail }, r.2)

def withField (f : Option FieldDef) (body : V) : V := fun st =>
  let r := body { st with field := f :: st.field }
  ({ r.1 with field := r.1.field.tail }, r.2)

def withInputType (s : Schema) (t : Option Ty) (body : V) : V := fun st =>
  let r := body { st with inp := s.resolve t :: st.inp, inpLit := t :: st.inpLit }
  ({ r.1 with inpLit := r.1.inpLit.tail, inp := r.1.inp.tail }, r.2)

/-- item type of a list literal visited at expected type `t` (after the F9 fix) -/
def listItemType : Option Ty → Option Ty
  | some (.list t) => some t
  | some (.nonNull (.list t)) => some t
  | _ => none

/-- expected type of object-literal field `k` at expected type `t` -/
def objectFieldType (s : Schema) (t : Option Ty) (k : Name) : Option Ty :=
  ((s.resolve t).bind (·.inputFieldByName k)).map (·.ty)

mutual
def visitValue (s : Schema) : Value → V
  | .bool b => emit (.enter (.scalar (.bool b))) ⨾ emit (.leave (.scalar (.bool b)))
  | .float f => emit (.enter (.scalar (.float f))) ⨾ emit (.leave (.scalar (.float f)))
  | .int i => emit (.enter (.scalar (.int i))) ⨾ emit (.leave (.scalar (.int i)))
  | .str x => emit (.enter (.scalar (.str x))) ⨾ emit (.leave (.scalar (.str x)))
  | .null => emit (.enter .nullValue) ⨾ emit (.leave .nullValue)
  | .enum n => emit (.enter (.enumValue n)) ⨾ emit (.leave (.enumValue n))
  | .var n => emit (.enter (.variable n)) ⨾ emit (.leave (.variable n))
  | .list vs => fun st =>
      (emit (.enter (.list vs))
        ⨾ withInputType s (listItemType (top st.inpLit)) (visitValues s vs)
        ⨾ emit (.leave (.list vs))) st
  | .obj fs => emit (.enter (.object fs)) ⨾ visitObjFields s fs ⨾ emit (.leave (.object fs))
def visitValues (s : Schema) : List Value → V
  | [] => V.skip
  | v :: vs => visitValue s v ⨾ visitValues s vs
def visitObjFields (s : Schema) : List (Name × Value) → V
  | [] => V.skip
  | (k, v) :: fs => fun st =>
      (withInputType s (objectFieldType s (top st.inpLit) k)
          (emit (.enter (.objectField (k, v))) ⨾ visitValue s v ⨾ emit (.leave (.objectField (k, v))))
        ⨾ visitObjFields s fs) st
end

def argType (defs : Option (List InputValueDef)) (name : Name) : Option Ty :=
  (defs.bind fun ds => ds.find? (·.name == name)).map (·.ty)

def visitArguments (s : Schema) (defs : Option (List InputValueDef)) : List Arg → V
  | [] => V.skip
  | a :: as =>
      withInputType s (argType defs a.1)
        (emit (.enter (.argument a)) ⨾ visitValue s a.2 ⨾ emit (.leave (.argument a)))
      ⨾ visitArguments s defs as

def visitDirectives (s : Schema) : List Directive → V
  | [] => V.skip
  | d :: ds =>
      (emit (.enter (.directive d))
        ⨾ visitArguments s ((s.directiveByName d.name).map (·.args)) d.args
        ⨾ emit (.leave (.directive d)))
      ⨾ visitDirectives s ds

def visitVariableDefinitions (s : Schema) : List VarDef → V
  | [] => V.skip
  | v :: vs =>
      withInputType s (some v.ty)
        (emit (.enter (.varDef v))
          ⨾ (match v.default with | some dv => visitValue s dv | none => V.skip)
          ⨾ emit (.leave (.varDef v)))
      ⨾ visitVariableDefinitions s vs

/-- `visit_selection_set`, given the traversal of the items -/
def selectionSetWith (sel : List Selection) (items : V) : V :=
  withParentType
    (emit (.enter (.selectionSet sel)) ⨾ items ⨾ emit (.leave (.selectionSet sel)))

mutual
def visitSelection (s : Schema) : Selection → V
  | .field pos alias name args dirs sel => fun st =>
      let f : FieldNode := ⟨pos, alias, name, args, dirs, sel⟩
      let fd := (top st.parent).bind (·.fieldByName name)
      (withType s (fd.map (·.ty))
        (emit (.enter (.field f))
          ⨾ withField fd
              (visitArguments s (fd.map (·.args)) args
                ⨾ visitDirectives s dirs
                ⨾ selectionSetWith sel (visitSelections s sel))
          ⨾ emit (.leave (.field f)))) st
  | .spread pos name dirs =>
      let sp : SpreadNode := ⟨pos, name, dirs⟩
      emit (.enter (.spread sp)) ⨾ visitDirectives s dirs ⨾ emit (.leave (.spread sp))
  | .inline pos tc dirs sel =>
      let i : InlineNode := ⟨pos, tc, dirs, sel⟩
      let body : V :=
        emit (.enter (.inline i)) ⨾ visitDirectives s dirs ⨾ selectionSetWith sel (visitSelections s sel)
          ⨾ emit (.leave (.inline i))
      match tc with
      | some c => withType s (some (.named c)) body
      | none => body
def visitSelections (s : Schema) : List Selection → V
  | [] => V.skip
  | x :: xs => visitSelection s x ⨾ visitSelections s xs
end

/-- `visit_selection_set` -/
def visitSelectionSet (s : Schema) (sel : List Selection) : V :=
  selectionSetWith sel (visitSelections s sel)

def visitFragmentDefinition (s : Schema) (f : FragDef) : V :=
  emit (.enter (.fragmentDef f)) ⨾ visitDirectives s f.dirs ⨾ visitSelectionSet s f.sel
    ⨾ emit (.leave (.fragmentDef f))

def visitOperationDefinition (s : Schema) (o : Operation) : V :=
  emit (.enter (.operation o)) ⨾ visitDirectives s o.dirs ⨾ visitVariableDefinitions s o.vars
    ⨾ visitSelectionSet s o.sel ⨾ emit (.leave (.operation o))

/-- Outcome of a computation that may hit one of the crate's `unwrap`/`panic!` sites. -/
inductive Outcome (α : Type) where
  | ok (a : α)
  | panic
  deriving Repr, Inhabited

/-- Root type name chosen by `visit_definitions` for an operation; `none` inside `some`
    means "no type"; the outer `none` is the `query_type().unwrap()` panic. -/
def rootTypeName (s : Schema) : OpKind → Option (Option Name)
  | .query | .shorthand => s.queryType.map (fun t => some t.name)
  | .mutation =>
      some (match s.mutationType with
        | some t => some t.name
        | none => match s.typeByName nMutation with
          | some (.object n _ _) => some n
          | _ => none)
  | .subscription =>
      some (match s.subscriptionType with
        | some t => some t.name
        | none => match s.typeByName nSubscription with
          | some (.object n _ _) => some n
          | _ => none)

/-- `visit_definitions`; `none` = panic (no query root object type). -/
def visitDefinitions (s : Schema) : List Definition → Option V
  | [] => some V.skip
  | .frag f :: rest =>
      (visitDefinitions s rest).map fun k =>
        withType s (some (.named f.tc)) (visitFragmentDefinition s f) ⨾ k
  | .op o :: rest =>
      match rootTypeName s o.kind with
      | none => none
      | some tn =>
        (visitDefinitions s rest).map fun k =>
          withType s (tn.map .named) (visitOperationDefinition s o) ⨾ k

/-- `visit_document` -/
def visitDocument (s : Schema) (d : Document) : Option V :=
  (visitDefinitions s d).map fun k =>
    emit (.enter (.document d)) ⨾ k ⨾ emit (.leave (.document d))

end Gql
