/-
  Model/CollectFields.lean — model of src/ast/collect_fields.rs.
  The recursion follows fragment *names*, so it is written with open recursion: `collectSels` is
  structural in the selection set and calls `expand` at a spread; `collectN` ties the knot with a
  fuel counter (running out of fuel = `stuck`; Thm/C19 shows it never happens with fuel >
  number of fragment definitions).
-/
import GqlVerif.Model.Rules.Basic
namespace Gql

/-- `HashMap<String, Vec<Field>>` in insertion order of the keys -/
abbrev Groups := List (Name × List FieldNode)

structure CState where
  groups : Groups := []
  visited : List Name := []
  stuck : Bool := false
  deriving Inhabited

/-- `does_fragment_condition_match` -/
def conditionMatches (s : Schema) (tc : Option Name) (parent : TypeDef) : Bool :=
  match tc with
  | none => true
  | some n =>
    match s.typeByName n with
    | some ct =>
      if ct.name == parent.name then true
      else match ct with
        | .interface iname _ _ => isImplementedBy iname parent
        | .union _ ms => ms.any fun v => parent.name == v
        | _ => false
    | none => false

def addField (g : Groups) (f : FieldNode) : Groups :=
  alUpdate g f.responseKey [] (· ++ [f])

mutual
def collectSel (s : Schema) (parent : TypeDef) (expand : Name → CState → CState) :
    Selection → CState → CState
  | .field pos alias name args dirs sel, st =>
      { st with groups := addField st.groups ⟨pos, alias, name, args, dirs, sel⟩ }
  | .inline _ tc _ sel, st =>
      if conditionMatches s tc parent then collectSels s parent expand sel st else st
  | .spread _ name _, st =>
      if st.visited.contains name then st
      else expand name { st with visited := st.visited ++ [name] }
def collectSels (s : Schema) (parent : TypeDef) (expand : Name → CState → CState) :
    List Selection → CState → CState
  | [], st => st
  | x :: xs, st => collectSels s parent expand xs (collectSel s parent expand x st)
end

def collectN (s : Schema) (d : Document) (parent : TypeDef) : Nat → List Selection → CState → CState
  | 0, _, st => { st with stuck := true }
  | n + 1, sel, st =>
      collectSels s parent
        (fun name st' =>
          match d.fragByName name with
          | none => st'
          | some frag =>
            if conditionMatches s (some frag.tc) parent then collectN s d parent n frag.sel st' else st')
        sel st

/-- `collect_fields(selection_set, parent_type, known_fragments, context)` -/
def collectFields (s : Schema) (d : Document) (parent : TypeDef) (sel : List Selection) : CState :=
  collectN s d parent (d.fragments.length + 1) sel {}

end Gql
