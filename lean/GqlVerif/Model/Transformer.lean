/-
  Model/Transformer.lean — model of src/ast/operation_transformer.rs: every `default_transform_*`
  function verbatim (including the copy-on-first-change `transform_list`, the fragment-spread
  default that always answers `Replace`, the call order inside each node), with the eleven
  overridable hooks of the property dispatched through `Hooks`.  A hook that is `none` is not
  overridden; a hook `some p` is a *probe*: it logs its invocation, runs the default function
  (so recursion continues) and, when its selector accepts the node, replaces the node by a
  recognisable rewrite of the (possibly already transformed) node.
-/
import GqlVerif.Model.Ast
namespace Gql

/-- `Transformed<T>` / `TransformedValue<T>` -/
inductive Tr (α : Type) where
  | keep
  | replace (a : α)
  deriving Repr, Inhabited

def Tr.shouldKeep {α : Type} : Tr α → Bool | .keep => true | .replace _ => false
/-- `replace_or_else(|| original.clone())` -/
def Tr.getD {α : Type} : Tr α → α → α | .keep, a => a | .replace b, _ => b

/-- selector + marker of a probe hook -/
structure Probe where
  modulus : Nat
  residue : Nat
  marker : Name
  /-- the value hook replaces by `null` instead of the enum marker (a replacement a rebuild could mistake for "no value") -/
  nullify : Bool := false
  deriving Repr, Inhabited

/-- the value a hit of the value hook puts in place of the visited value -/
def Probe.value (p : Probe) : Value := if p.nullify then .null else .enum p.marker

def Probe.hit (p : Probe) (key : Nat) : Bool := p.modulus != 0 && key % p.modulus == p.residue

structure Hooks where
  definition : Option Probe := none
  operation : Option Probe := none
  fragment : Option Probe := none
  selectionSet : Option Probe := none
  field : Option Probe := none
  spread : Option Probe := none
  inlineFrag : Option Probe := none
  directive : Option Probe := none
  argument : Option Probe := none
  value : Option Probe := none
  varDef : Option Probe := none
  deriving Repr, Inhabited

inductive HookId where
  | definition | operation | fragment | selectionSet | field | spread | inline | directive | argument | value | varDef
  deriving DecidableEq, Repr

/-- one hook invocation: which hook, on which node (its key) -/
abbrev LogEntry := HookId × Nat
/-- result with the invocation log (writer) -/
abbrev W (α : Type) := α × List LogEntry

def posKey (p : Pos) : Nat := p.line * 1000 + p.col
def valueKey : Value → Nat
  | .var _ => 0 | .int i => i.toNat + 10 | .float _ => 2 | .str _ => 3 | .bool _ => 4 | .null => 5
  | .enum _ => 6 | .list _ => 7 | .obj _ => 8
def opKey (o : Operation) : Nat := if o.kind == .shorthand then 0 else posKey o.pos
def defKey : Definition → Nat | .op o => opKey o | .frag f => posKey f.pos

/-- state of `transform_list` while it runs: (result so far, has_changes, kept originals before
    the first change) with the log -/
abbrev ListAcc (α : Type) := (List α × Bool × List α) × List LogEntry

def listStep {α : Type} (acc : ListAcc α) (item : α) (x : W (Tr α)) : ListAcc α :=
  let (result, changed, pre) := acc.1
  match x.1 with
  | .keep => (if changed then (result ++ [item], changed, pre) else (result, changed, pre ++ [item]), acc.2 ++ x.2)
  | .replace y => (if changed then (result ++ [y], true, pre) else (pre ++ [y], true, pre), acc.2 ++ x.2)

def listResult {α : Type} (r : ListAcc α) : W (Tr (List α)) := (if r.1.2.1 then .replace r.1.1 else .keep, r.2)

/-- `transform_list`: nothing is copied until the first replacement -/
def transformList {α : Type} (f : α → W (Tr α)) (list : List α) : W (Tr (List α)) :=
  listResult (list.foldl (fun acc item => listStep acc item (f item)) (([], false, []), []))

/-! ### values, arguments, directives, variable definitions -/

def defaultTransformValue (_v : Value) : W (Tr Value) := (.keep, [])

def transformValue (h : Hooks) (v : Value) : W (Tr Value) :=
  match h.value with
  | none => defaultTransformValue v
  | some p =>
    let d := defaultTransformValue v
    ((if p.hit (valueKey v) then .replace p.value else d.1), (HookId.value, valueKey v) :: d.2)

def defaultTransformArgument (h : Hooks) (a : Arg) : W (Tr Arg) :=
  let r := transformValue h a.2
  (match r.1 with | .keep => .keep | .replace v => .replace (a.1, v), r.2)

def transformArgument (h : Hooks) (a : Arg) : W (Tr Arg) :=
  match h.argument with
  | none => defaultTransformArgument h a
  | some p =>
    let d := defaultTransformArgument h a
    ((if p.hit a.1 then .replace (p.marker, (d.1.getD a).2) else d.1), (HookId.argument, a.1) :: d.2)

def transformArguments (h : Hooks) (args : List Arg) : W (Tr (List Arg)) :=
  transformList (transformArgument h) args

def defaultTransformDirective (h : Hooks) (dir : Directive) : W (Tr Directive) :=
  let r := transformArguments h dir.args
  (match r.1 with | .keep => .keep | .replace args => .replace { dir with args := args }, r.2)

def transformDirective (h : Hooks) (dir : Directive) : W (Tr Directive) :=
  match h.directive with
  | none => defaultTransformDirective h dir
  | some p =>
    let d := defaultTransformDirective h dir
    ((if p.hit (posKey dir.pos) then .replace { d.1.getD dir with name := p.marker } else d.1),
      (HookId.directive, posKey dir.pos) :: d.2)

def transformDirectives (h : Hooks) (ds : List Directive) : W (Tr (List Directive)) :=
  transformList (transformDirective h) ds

def defaultTransformVariableDefinition (h : Hooks) (v : VarDef) : W (Tr VarDef) :=
  match v.default with
  | some value =>
    let r := transformValue h value
    (if r.1.shouldKeep then .keep else .replace { v with default := some (r.1.getD value) }, r.2)
  | none => (.keep, [])

def transformVariableDefinition (h : Hooks) (v : VarDef) : W (Tr VarDef) :=
  match h.varDef with
  | none => defaultTransformVariableDefinition h v
  | some p =>
    let d := defaultTransformVariableDefinition h v
    ((if p.hit (posKey v.pos) then .replace { d.1.getD v with name := p.marker } else d.1),
      (HookId.varDef, posKey v.pos) :: d.2)

/-- `default_transform_variable_definitions` (after the F17 repair: dispatches the hook) -/
def transformVariableDefinitions (h : Hooks) (vs : List VarDef) : W (Tr (List VarDef)) :=
  transformList (transformVariableDefinition h) vs

/-! ### selections -/

def markerField (m : Name) : Selection := .field ⟨0, 0⟩ none m [] [] []

/-- `transform_selection_set`: the outcome of the list walk, then the probe -/
def selectionSetResult (h : Hooks) (sel : List Selection) (r : ListAcc Selection) : W (Tr (List Selection)) :=
  let d : W (Tr (List Selection)) := listResult r
  match h.selectionSet with
  | none => d
  | some p =>
    ((if p.hit sel.length then .replace (d.1.getD sel ++ [markerField p.marker]) else d.1),
      (HookId.selectionSet, sel.length) :: d.2)

mutual
/-- `transform_selection` (not overridable here) = `default_transform_selection` -/
def transformSelection (h : Hooks) : Selection → W (Tr Selection)
  | .spread pos name dirs =>
      -- default_transform_fragment_spread: always Replace
      let dr := transformDirectives h dirs
      let d : W (Tr Selection) := (.replace (.spread pos name (dr.1.getD dirs)), dr.2)
      match h.spread with
      | none => d
      | some p =>
        ((if p.hit (posKey pos) then
            .replace (match d.1.getD (.spread pos name dirs) with
              | .spread q _ ds => .spread q p.marker ds
              | other => other)
          else d.1), (HookId.spread, posKey pos) :: d.2)
  | .inline pos tc dirs sel =>
      let sr := selectionSetResult h sel (transformSelectionsAcc h sel (([], false, []), []))
      let dr := transformDirectives h dirs
      let d : W (Tr Selection) :=
        (if sr.1.shouldKeep && dr.1.shouldKeep then .keep
         else .replace (.inline pos tc (dr.1.getD dirs) (sr.1.getD sel)), sr.2 ++ dr.2)
      match h.inlineFrag with
      | none => d
      | some p =>
        ((if p.hit (posKey pos) then
            .replace (match d.1.getD (.inline pos tc dirs sel) with
              | .inline q _ ds sl => .inline q (some p.marker) ds sl
              | other => other)
          else d.1), (HookId.inline, posKey pos) :: d.2)
  | .field pos alias name args dirs sel =>
      let sr := selectionSetResult h sel (transformSelectionsAcc h sel (([], false, []), []))
      let ar := transformArguments h args
      let dr := transformDirectives h dirs
      let d : W (Tr Selection) :=
        (if sr.1.shouldKeep && ar.1.shouldKeep && dr.1.shouldKeep then .keep
         else .replace (.field pos alias name (ar.1.getD args) (dr.1.getD dirs) (sr.1.getD sel)), sr.2 ++ ar.2 ++ dr.2)
      match h.field with
      | none => d
      | some p =>
        ((if p.hit (posKey pos) then
            .replace (match d.1.getD (.field pos alias name args dirs sel) with
              | .field q al _ as ds sl => .field q al p.marker as ds sl
              | other => other)
          else d.1), (HookId.field, posKey pos) :: d.2)
/-- the loop of `transform_list(&selections.items, Self::transform_selection)`, structural -/
def transformSelectionsAcc (h : Hooks) : List Selection → ListAcc Selection → ListAcc Selection
  | [], acc => acc
  | item :: rest, acc => transformSelectionsAcc h rest (listStep acc item (transformSelection h item))
end

/-- `transform_selection_set` -/
def transformSelectionSetItems (h : Hooks) (sel : List Selection) : W (Tr (List Selection)) :=
  selectionSetResult h sel (transformSelectionsAcc h sel (([], false, []), []))

/-! ### definitions -/

/-- `default_transform_query` / `_mutation` / `_subscription` (identical bodies) and the
    `SelectionSet` arm of `default_transform_operation` -/
def defaultTransformOperation (h : Hooks) (o : Operation) : W (Tr Operation) :=
  if o.kind == .shorthand then
    let items := transformSelectionSetItems h o.sel
    (if items.1.shouldKeep then .keep else .replace { o with sel := items.1.getD o.sel }, items.2)
  else
    let sr := transformSelectionSetItems h o.sel
    let dr := transformDirectives h o.dirs
    let vr := transformVariableDefinitions h o.vars
    (if sr.1.shouldKeep && dr.1.shouldKeep && vr.1.shouldKeep then .keep
     else .replace { o with dirs := dr.1.getD o.dirs, sel := sr.1.getD o.sel, vars := vr.1.getD o.vars },
     sr.2 ++ dr.2 ++ vr.2)

def transformOperation (h : Hooks) (o : Operation) : W (Tr Operation) :=
  match h.operation with
  | none => defaultTransformOperation h o
  | some p =>
    let d := defaultTransformOperation h o
    ((if p.hit (opKey o) then
        .replace (let x := d.1.getD o; if x.kind == .shorthand then x else { x with name := some p.marker })
      else d.1), (HookId.operation, opKey o) :: d.2)

def defaultTransformFragment (h : Hooks) (f : FragDef) : W (Tr FragDef) :=
  let sr := transformSelectionSetItems h f.sel
  let dr := transformDirectives h f.dirs
  (if sr.1.shouldKeep && dr.1.shouldKeep then .keep
   else .replace { f with dirs := dr.1.getD f.dirs, sel := sr.1.getD f.sel }, sr.2 ++ dr.2)

def transformFragment (h : Hooks) (f : FragDef) : W (Tr FragDef) :=
  match h.fragment with
  | none => defaultTransformFragment h f
  | some p =>
    let d := defaultTransformFragment h f
    ((if p.hit (posKey f.pos) then .replace { d.1.getD f with name := p.marker } else d.1),
      (HookId.fragment, posKey f.pos) :: d.2)

def defaultTransformDefinition (h : Hooks) : Definition → W (Tr Definition)
  | .op o => let r := transformOperation h o; (match r.1 with | .keep => .keep | .replace x => .replace (.op x), r.2)
  | .frag f => let r := transformFragment h f; (match r.1 with | .keep => .keep | .replace x => .replace (.frag x), r.2)

def transformDefinition (h : Hooks) (x : Definition) : W (Tr Definition) :=
  match h.definition with
  | none => defaultTransformDefinition h x
  | some p =>
    let d := defaultTransformDefinition h x
    ((if p.hit (defKey x) then
        .replace (match d.1.getD x with
          | .op o => .op (if o.kind == .shorthand then o else { o with name := some p.marker })
          | .frag f => .frag { f with name := p.marker })
      else d.1), (HookId.definition, defKey x) :: d.2)

def docStep (h : Hooks) (acc : (List Definition × Bool) × List LogEntry) (x : Definition) :
    (List Definition × Bool) × List LogEntry :=
  let t := transformDefinition h x
  match t.1 with
  | .keep => ((acc.1.1 ++ [x], acc.1.2), acc.2 ++ t.2)
  | .replace y => ((acc.1.1 ++ [y], true), acc.2 ++ t.2)

/-- `default_transform_document`: every definition is pushed (kept or replaced) -/
def transformDocument (h : Hooks) (d : Document) : W (Tr Document) :=
  let r := d.foldl (docStep h) (([], false), [])
  (if r.1.2 then .replace r.1.1 else .keep, r.2)

end Gql
