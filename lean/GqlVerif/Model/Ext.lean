/-
  Model/Ext.lean — model of src/ast/ext.rs (+ do_types_overlap of possible_fragment_spreads.rs):
  one definition per public helper, same case analysis, same first-match semantics.
-/
import GqlVerif.Model.Ast
namespace Gql

/-! ### Type references -/
def Ty.inner : Ty → Name
  | .named n => n
  | .list t => t.inner
  | .nonNull t => t.inner

def Ty.ofType : Ty → Ty
  | .list t => t
  | .nonNull t => t
  | .named n => .named n

def Ty.isNonNull : Ty → Bool | .nonNull _ => true | _ => false
def Ty.isList : Ty → Bool | .list _ => true | _ => false
def Ty.isNamed : Ty → Bool | .named _ => true | _ => false

/-! ### Type definitions -/
def TypeDef.name : TypeDef → Name
  | .scalar n => n | .object n _ _ => n | .interface n _ _ => n
  | .union n _ => n | .enum n _ => n | .inputObject n _ => n

def TypeDef.isAbstract : TypeDef → Bool | .interface .. => true | .union .. => true | _ => false
def TypeDef.isInterface : TypeDef → Bool | .interface .. => true | _ => false
def TypeDef.isObject : TypeDef → Bool | .object .. => true | _ => false
def TypeDef.isUnion : TypeDef → Bool | .union .. => true | _ => false
def TypeDef.isEnum : TypeDef → Bool | .enum .. => true | _ => false
def TypeDef.isScalar : TypeDef → Bool | .scalar .. => true | _ => false
def TypeDef.isLeaf : TypeDef → Bool | .scalar .. => true | .enum .. => true | _ => false
def TypeDef.isInput : TypeDef → Bool
  | .scalar .. => true | .enum .. => true | .inputObject .. => true | _ => false
def TypeDef.isComposite : TypeDef → Bool
  | .object .. => true | .interface .. => true | .union .. => true | _ => false

/-- `impl TypeDefinitionExtension for Option<&TypeDefinition>`: absent ⇒ `false` / `""`.
    The empty name is modelled as `none`. -/
def optIsObject : Option TypeDef → Bool | some t => t.isObject | none => false
def optName : Option TypeDef → Option Name | some t => some t.name | none => none

def TypeDef.fieldByName (t : TypeDef) (n : Name) : Option FieldDef :=
  match t with
  | .object _ _ fs => fs.find? (·.name == n)
  | .interface _ _ fs => fs.find? (·.name == n)
  | _ => none

def TypeDef.inputFieldByName (t : TypeDef) (n : Name) : Option InputValueDef :=
  match t with
  | .inputObject _ fs => fs.find? (·.name == n)
  | _ => none

/-- `ImplementingInterfaceExtension::interfaces` for `TypeDefinition`. -/
def TypeDef.interfaces : TypeDef → List Name
  | .object _ is _ => is
  | .interface _ is _ => is
  | _ => []

/-! ### Schema lookups -/
def Schema.typeByName (s : Schema) (n : Name) : Option TypeDef :=
  match s with
  | [] => none
  | .type t :: rest => if t.name == n then some t else Schema.typeByName rest n
  | _ :: rest => Schema.typeByName rest n

def Schema.directiveByName (s : Schema) (n : Name) : Option DirectiveDef :=
  match s with
  | [] => none
  | .directive d :: rest => if d.name == n then some d else Schema.directiveByName rest n
  | _ :: rest => Schema.directiveByName rest n

def Schema.objectTypeByName (s : Schema) (n : Name) : Option TypeDef :=
  match s.typeByName n with
  | some (.object a b c) => some (.object a b c)
  | _ => none

/-- `type_map()`: a `HashMap` filled in definition order, so a later duplicate wins.
    Modelled as the list of types; `typeMapGet` is the lookup with that semantics. -/
def Schema.types : Schema → List TypeDef
  | [] => []
  | .type t :: rest => t :: Schema.types rest
  | _ :: rest => Schema.types rest

def Schema.directives : Schema → List DirectiveDef
  | [] => []
  | .directive d :: rest => d :: Schema.directives rest
  | _ :: rest => Schema.directives rest

/-- `ctx.directives.get(name)`: also a `HashMap::from_iter`, last definition wins
    (`schema.directive_by_name` is first-match; they agree when directive names are unique) -/
def Schema.directiveMapGet (s : Schema) (n : Name) : Option DirectiveDef :=
  s.directives.reverse.find? (·.name == n)

def Schema.typeMapGet (s : Schema) (n : Name) : Option TypeDef :=
  s.types.reverse.find? (·.name == n)

/-- the values `type_map()` holds, one per distinct key: a definition survives unless a later
    definition has the same name (`HashMap::insert` overwrites) -/
def lastWins : List TypeDef → List TypeDef
  | [] => []
  | t :: rest => if rest.any (·.name == t.name) then lastWins rest else t :: lastWins rest

def Schema.typeMapEntries (s : Schema) : List TypeDef := lastWins s.types

def defaultSchemaDef : SchemaDef :=
  { query := some nQuery, mutation := some nMutation, subscription := some nSubscription }

def Schema.explicitSchemaDef : Schema → Option SchemaDef
  | [] => none
  | .schema d :: _ => some d
  | _ :: rest => Schema.explicitSchemaDef rest

def Schema.schemaDefinition (s : Schema) : SchemaDef :=
  s.explicitSchemaDef.getD defaultSchemaDef

/-- `query_type()` unwraps: `none` here is a panic of the real function. -/
def Schema.queryType (s : Schema) : Option TypeDef :=
  s.objectTypeByName (s.schemaDefinition.query.getD nQuery)

def Schema.mutationType (s : Schema) : Option TypeDef :=
  s.schemaDefinition.mutation.bind s.objectTypeByName

def Schema.subscriptionType (s : Schema) : Option TypeDef :=
  s.schemaDefinition.subscription.bind s.objectTypeByName

/-! ### Subtyping -/
def isPossibleType (abstractType possibleType : TypeDef) : Bool :=
  match abstractType with
  | .union _ members => members.any (· == possibleType.name)
  | .interface n _ _ => possibleType.interfaces.contains n
  | _ => false

def Schema.isNamedSubtype (s : Schema) (sub sup : Name) : Bool :=
  if sub == sup then true
  else match s.typeByName sub, s.typeByName sup with
    | some subT, some supT => supT.isAbstract && isPossibleType supT subT
    | _, _ => false

/-- last branch of `is_subtype`: both sides named -/
def Schema.namedSubtypeCheck (s : Schema) (subN supN : Name) : Bool :=
  match s.typeByName subN, s.typeByName supN with
  | some subT, some supT =>
    supT.isAbstract && (subT.isInterface || subT.isObject) && isPossibleType supT subT
  | _, _ => false

/-- `is_subtype`, the six-branch recursion verbatim.  Termination: every recursive call
    strips a wrapper from the sub type, so the recursion is structural in it. -/
def Schema.isSubtype (s : Schema) : Ty → Ty → Bool
  | sub, sup =>
    if sub = sup then true
    else match sup, sub with
      | .nonNull sup', .nonNull sub' => s.isSubtype sub' sup'
      | .nonNull _, _ => false
      | sup, .nonNull sub' => s.isSubtype sub' sup
      | .list sup', .list sub' => s.isSubtype sub' sup'
      | .list _, _ => false
      | _, .list _ => false
      | .named supN, .named subN => s.namedSubtypeCheck subN supN
termination_by structural sub => sub

/-! ### Values -/
mutual
/-- `Value::compare` -/
def Value.compare : Value → Value → Bool
  | .null, .null => true
  | .bool a, .bool b => a == b
  | .int a, .int b => a == b
  | .float a, .float b => a == b
  | .str a, .str b => a == b
  | .enum a, .enum b => a == b
  | .list a, .list b => Value.compareList a b
  | .obj a, .obj b => Value.compareFields a b
  | .var a, .var b => a == b
  | _, _ => false
/-- `a.len() == b.len() && zip(..).all(compare)` -/
def Value.compareList : List Value → List Value → Bool
  | [], [] => true
  | a :: as, b :: bs => Value.compare a b && Value.compareList as bs
  | _, _ => false
/-- same length, and entry-wise same key and comparable value (both in `BTreeMap` order) -/
def Value.compareFields : List (Name × Value) → List (Name × Value) → Bool
  | [], [] => true
  | (ka, a) :: as, (kb, b) :: bs => ka == kb && Value.compare a b && Value.compareFields as bs
  | _, _ => false
end

mutual
/-- `variables_in_use` -/
def Value.variablesInUse : Value → List Name
  | .var n => [n]
  | .list vs => Value.variablesInUseList vs
  | .obj fs => Value.variablesInUseFields fs
  | _ => []
def Value.variablesInUseList : List Value → List Name
  | [] => []
  | v :: vs => v.variablesInUse ++ Value.variablesInUseList vs
def Value.variablesInUseFields : List (Name × Value) → List Name
  | [] => []
  | (_, v) :: fs => v.variablesInUse ++ Value.variablesInUseFields fs
end

def InputValueDef.isRequired (d : InputValueDef) : Bool :=
  match d.ty with
  | .nonNull _ => d.default.isNone
  | _ => false

/-! ### Abstract types -/
/-- `InterfaceType::is_implemented_by(other)`: `other.interfaces()` contains the interface name -/
def isImplementedBy (ifaceName : Name) (other : TypeDef) : Bool :=
  other.interfaces.any (fun v => ifaceName == v)

/-- `TypeDefinition::has_sub_type` -/
def TypeDef.hasSubType (t other : TypeDef) : Bool :=
  match t with
  | .interface n _ _ => isImplementedBy n other
  | .union _ members => members.any (fun v => other.name == v)
  | _ => false

/-- `TypeDefinition::has_concrete_sub_type` (argument is an object type) -/
def TypeDef.hasConcreteSubType (t concrete : TypeDef) : Bool :=
  match t with
  | .interface n _ _ => isImplementedBy n concrete
  | .union _ members => members.any (fun v => concrete.name == v)
  | _ => false

/-- `possible_types`: for an interface the objects of `type_map()` implementing it (map iteration
    order — compare up to permutation); for a union its members that resolve to objects. -/
def TypeDef.possibleTypes (t : TypeDef) (s : Schema) : List TypeDef :=
  match t with
  | .interface n _ _ => s.typeMapEntries.filter (fun d => d.isObject && isImplementedBy n d)
  | .union _ members => members.filterMap (fun m =>
      match s.typeByName m with
      | some (.object a b c) => some (.object a b c)
      | _ => none)
  | _ => []

/-- `do_types_overlap` -/
def doTypesOverlap (s : Schema) (t1 t2 : TypeDef) : Bool :=
  if t1.name == t2.name then true
  else if t1.isAbstract then
    if t2.isAbstract then
      ((t1.possibleTypes s).filter (fun p => t2.hasConcreteSubType p)).length > 0
    else t1.hasSubType t2
  else if t2.isAbstract then t2.hasSubType t1
  else false

/-! ### Fragment spreads -/
mutual
/-- `get_recursive_fragment_spreads` (after the fix: through every nesting level) -/
def recursiveSpreads : List Selection → List SpreadNode
  | [] => []
  | sel :: rest => recursiveSpreadsSel sel ++ recursiveSpreads rest
def recursiveSpreadsSel : Selection → List SpreadNode
  | .spread p n ds => [⟨p, n, ds⟩]
  | .field _ _ _ _ _ sel => recursiveSpreads sel
  | .inline _ _ _ sel => recursiveSpreads sel
end

/-- `get_fragment_spreads`: direct children only -/
def directSpreads : List Selection → List SpreadNode
  | [] => []
  | .spread p n ds :: rest => ⟨p, n, ds⟩ :: directSpreads rest
  | _ :: rest => directSpreads rest

end Gql
