/-
  Main.lean — line-protocol driver.  One JSON object per input line, one JSON line out.
-/
import GqlVerif.Spec.Merge
import GqlVerif.Driver.Decode
import GqlVerif.Driver.Render
import GqlVerif.Driver.ExtOps
import GqlVerif.Driver.Messages
import GqlVerif.Driver.Encode
import GqlVerif.Model.Transformer
import GqlVerif.Gen.IntrospectionShape
import GqlVerif.Spec.TypeSystem
open Lean Gql Gql.Driver

mutual
partial def selSetsOfSel : Selection → List (List Selection)
  | .field _ _ _ _ _ sel => selSetsOf sel
  | .inline _ _ _ sel => selSetsOf sel
  | .spread .. => []
partial def selSetsOf (sel : List Selection) : List (List Selection) :=
  sel :: sel.flatMap selSetsOfSel
end

def allSelectionSets (d : Document) : List (List Selection) :=
  d.flatMap fun
    | .op o => selSetsOf o.sel
    | .frag f => selSetsOf f.sel

partial def toJ : Json → Gql.Codec.J
  | .null => .null
  | .bool b => .bool b
  | .num n => .num (toString n)
  | .str s => .str s
  | .arr a => .arr (a.toList.map toJ)
  | .obj kvs => .obj (kvs.toList.map fun (k, v) => (k, toJ v))

partial def ofJ : Gql.Codec.J → Json
  | .null => .null
  | .bool b => .bool b
  | .num r => (match Json.parse r with | .ok j => j | .error _ => .str r)
  | .str s => .str s
  | .arr l => .arr (l.map ofJ).toArray
  | .obj kvs => Json.mkObj (kvs.map fun (k, v) => (k, ofJ v))

structure DState where
  strings : Array String := #[]
  schema : Schema := []

def field (j : Json) (k : String) : D Json :=
  match j.getObjVal? k with
  | .ok v => pure v
  | .error _ => throw s!"missing key {k}"

def handle (st : DState) (j : Json) : D (DState × Json) := do
  let op ← str (← field j "op")
  match op with
  | "strings" =>
    let tab ← listOf str (← field j "tab")
    pure ({ st with strings := tab.toArray }, Json.mkObj [("ok", true)])
  | "schema" =>
    let s ← schema (← field j "ast")
    pure ({ st with schema := s }, Json.mkObj [("ok", true)])
  | "trace" =>
    let d ← document (← field j "doc")
    match visitDocument st.schema d with
    | none => pure (st, Json.mkObj [("outcome", "panic")])
    | some v =>
      let r := v Stacks.empty
      let lines := r.2.map rTraceLine
      pure (st, Json.mkObj [("outcome", "ok"), ("lines", Json.arr (lines.map Json.str).toArray),
        ("final", rSnap r.1.snap), ("echo", jDocument d)])
  | "ext" =>
    let r ← extOp st.schema j
    pure (st, Json.mkObj [("r", r)])
  | "validate" =>
    let d ← document (← field j "doc")
    let only : Option (List String) := match j.getObjVal? "rules" with
      | .ok r => (match listOf str r with | .ok l => some l | .error _ => none)
      | .error _ => none
    match visitDocument st.schema d with
    | none => pure (st, Json.mkObj [("outcome", "panic"), ("wf", st.schema.WF)])
    | some v =>
      let tr := (v Stacks.empty).2
      let rules := RuleId.all.filter fun r => match only with | some l => l.contains (ruleName r) | none => true
      -- each rule alone
      let single := rules.map fun r =>
        (ruleName r, Json.arr ((sortStrings (((ruleOf r).runOn st.schema d tr).map (renderErr st.strings))).map Json.str).toArray)
      let wantMerge := rules.contains .overlappingFieldsCanBeMerged
      let mst := if wantMerge then (tr.foldl (overlappingFieldsCanBeMerged.step st.schema d) (overlappingFieldsCanBeMerged.init, [])).1 else {}
      let cst := (tr.foldl (noFragmentsCycle.step st.schema d) (noFragmentsCycle.init, [])).1
      -- the default plan through the shared context
      let dflt := if only.isSome then [] else (runPlan st.schema d v RuleId.all Stacks.empty).map fun g =>
        Json.arr ((sortStrings (g.map (renderErr st.strings))).map Json.str).toArray
      let wantSpec := match j.getObjVal? "mergeSpec" with | .ok (.bool b) => b | _ => false
      let specFields : List (String × Json) := if wantSpec then
          [("mergeSpecViolated", Json.bool (Gql.Spec.mergeViolatedB st.schema d)),
           ("argNamesUnique", Json.bool ((uniqueArgumentNames.runOn st.schema d tr).isEmpty)),
           -- the same test with both fuels doubled: a different answer would mean the fuel of the executable spec is too small
           ("mergeSpecViolated2", Json.bool ((Gql.walkOf st.schema d).any fun e =>
              match e.1 with
              | .enter (.selectionSet sel) =>
                !Gql.Spec.fieldsInSetCanMerge st.schema d (2 * Gql.Spec.spreadFuelOf d) (2 * Gql.Spec.nestFuelOf d)
                  (Gql.Spec.specFields st.schema d (2 * Gql.Spec.spreadFuelOf d) e.2.parent sel)
              | _ => false)),
           ("fragmentFree", Json.bool (d.all fun x => match x with
              | .op o => (recursiveSpreads o.sel).isEmpty | .frag f => (recursiveSpreads f.sel).isEmpty))]
        else []
      let base : List (String × Json) := [("outcome", "ok"), ("wf", st.schema.WF), ("single", Json.mkObj single),
        ("mergeStuck", mst.stuck), ("guardHit", mst.guardHit), ("cycleStuck", cst.stuck),
        ("planGroups", Json.arr dflt.toArray)]
      pure (st, Json.mkObj (base ++ specFields ++ [("echo", jDocument d)]))
  | "collect" =>
    let d ← document (← field j "doc")
    let parents ← listOf nat (← field j "parents")
    let sets := match j.getObjVal? "sets" with
      | .ok (.str "operations") => d.filterMap fun (x : Gql.Definition) => match x with | Gql.Definition.op o => some o.sel | Gql.Definition.frag _ => none
      | _ => allSelectionSets d
    let res := sets.flatMap fun sel => parents.filterMap fun p =>
      (st.schema.typeByName p).map fun t =>
        let c := collectFields st.schema d t sel
        if c.stuck then Json.str "stuck" else
        let groups := c.groups.map fun (kf : Gql.Name × List FieldNode) => (kf.1, kf.2.map fun (f : FieldNode) => s!"{rPos f.pos}:{rOptName f.alias}:{f.name}")
        let sorted := (groups.toArray.qsort (fun a b => a.1 < b.1)).toList
        Json.arr (sorted.map fun (k, fs) => Json.arr #[(k : Json), Json.arr (fs.map Json.str).toArray]).toArray
    pure (st, Json.mkObj [("outcome", "ok"), ("results", Json.arr res.toArray)])
  | "transform" =>
    let d ← document (← field j "doc")
    let hk ← field j "hooks"
    let probe (k : String) : D (Option Probe) := do
      match hk.getObjVal? k with
      | .ok (.arr a) => pure (some ⟨← nat (← at' a 0), ← nat (← at' a 1), ← nat (← at' a 2), a.size > 3⟩)
      | _ => pure none
    let pDef ← probe "definition"
    let pOp ← probe "operation"
    let pFrag ← probe "fragment"
    let pSel ← probe "selectionSet"
    let pField ← probe "field"
    let pSpread ← probe "spread"
    let pInline ← probe "inline"
    let pDir ← probe "directive"
    let pArg ← probe "argument"
    let pVal ← probe "value"
    let pVar ← probe "varDef"
    let hooks : Hooks := ⟨pDef, pOp, pFrag, pSel, pField, pSpread, pInline, pDir, pArg, pVal, pVar⟩
    let r := transformDocument hooks d
    let hookName : HookId → String
      | .definition => "definition" | .operation => "operation" | .fragment => "fragment" | .selectionSet => "selectionSet"
      | .field => "field" | .spread => "spread" | .inline => "inline" | .directive => "directive" | .argument => "argument"
      | .value => "value" | .varDef => "varDef"
    pure (st, Json.mkObj [("keep", r.1.shouldKeep), ("doc", jDocument (r.1.getD d)),
      ("log", Json.arr (r.2.map fun (e : LogEntry) => Json.arr #[Json.str (hookName e.1), (e.2 : Json)]).toArray)])
  | "introspect" =>
    let text ← str (← field j "json")
    match Json.parse text with
    | .error _ => pure (st, Json.mkObj [("r", "err"), ("why", "malformed")])
    | .ok js =>
      let jj := toJ js
      match Gql.Codec.decode Gql.Gen.introspectionEnv (Gql.Codec.fuelFor jj) Gql.Gen.introspectionRoot jj with
      | none => pure (st, Json.mkObj [("r", "err"), ("why", "shape")])
      | some v =>
        let out := Gql.Codec.encode v
        -- decode(encode v) = v ?  (re-serialisation is a fixpoint)
        let again := Gql.Codec.decode Gql.Gen.introspectionEnv (Gql.Codec.fuelFor out) Gql.Gen.introspectionRoot out
        let fix := match again with | some v2 => (ofJ (Gql.Codec.encode v2)).compress == (ofJ out).compress | none => false
        pure (st, Json.mkObj [("r", "ok"), ("canon", ofJ out), ("fixpoint", fix)])
  | "svisit" =>
    match schemaVisit st.schema with
    | none => pure (st, Json.mkObj [("outcome", "panic")])
    | some es => pure (st, Json.mkObj [("outcome", "ok"), ("lines", Json.arr ((es.map rSEv).map Json.str).toArray)])
  | _ => throw s!"unknown op {op}"

partial def loop (hin : IO.FS.Stream) (hout : IO.FS.Stream) (st : DState) : IO Unit := do
  let line ← hin.getLine
  if line.isEmpty then return ()
  let line := line.trimAsciiEnd.toString
  if line.isEmpty then loop hin hout st else
  match Json.parse line with
  | .error e =>
    hout.putStrLn (Json.mkObj [("error", s!"json: {e}")]).compress
    loop hin hout st
  | .ok j =>
    match handle st j with
    | .error e =>
      hout.putStrLn (Json.mkObj [("error", e)]).compress
      loop hin hout st
    | .ok (st', out) =>
      hout.putStrLn out.compress
      loop hin hout st'

def main : IO Unit := do
  let hin ← IO.getStdin
  let hout ← IO.getStdout
  loop hin hout {}
