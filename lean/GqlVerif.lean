import GqlVerif.Model.Visitor
