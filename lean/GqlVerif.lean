import GqlVerif.Model.Visitor
import GqlVerif.Spec.Walk
