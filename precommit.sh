#!/bin/sh
# Run every quick check on the unchanged tree with the seed the harness uses, and refuse stale or
# failing evidence.  usage: ./precommit.sh  (exit 0 = evidence/ describes a clean run of every check)
cd "$(dirname "$0")"
[ -z "$(git -C /repo status --porcelain)" ] || { echo "/repo is not clean"; exit 1; }
rc=0
for p in C01 C02 C03 C04 C05 C06 C07 C08 C09 C10 C11 C12 C13 C14 C15 C16 C17 C18 C19 C20; do
  out=$(VERIF_SEED=1 VERIF_TIER=quick ./check $p 2>&1); r=$?
  echo "$out" | tail -1
  [ $r -eq 0 ] || rc=1
  echo "$out" | grep -q "^VIOLATION" && rc=1
done
python3 - <<'PY' || rc=1
import json,glob,sys
bad=0
for f in sorted(glob.glob('evidence/C*.json')):
    e=json.load(open(f)); c=e['coverage']
    if c.get('obligations')!=c.get('discharged') or e.get('violations') or e.get('tier')!='quick':
        print("BAD evidence", f, c.get('obligations'), c.get('discharged'), e.get('violations'), e.get('tier')); bad=1
sys.exit(bad)
PY
[ $rc -eq 0 ] && echo "precommit: ok" || echo "precommit: FAILED"
exit $rc
