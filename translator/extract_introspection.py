#!/usr/bin/env python3
"""Regenerates lean/GqlVerif/Gen/IntrospectionShape.lean from the serde derive input of
/repo/src/introspection/introspection.rs (struct members, `rename`, `Option`, `Vec`, `Box`, `tag`,
enum variants).  Unrecognised source shapes make it fail (exit 1)."""
import os, re, sys
REPO = os.environ.get("VERIF_REPO", "/repo")
OUT = os.path.join(os.path.dirname(os.path.abspath(__file__)), "..", "lean", "GqlVerif", "Gen")
src = open(os.path.join(REPO, "src/introspection/introspection.rs")).read()
src = re.sub(r"/\*.*?\*/", "", src, flags=re.S)
src = re.sub(r"//[^\n]*", "", src)

def split_top(s, sep=","):
    out, depth, cur = [], 0, ""
    for ch in s:
        if ch in "<({[": depth += 1
        if ch in ">)}]": depth -= 1
        if ch == sep and depth == 0: out.append(cur); cur = ""
        else: cur += ch
    if cur.strip(): out.append(cur)
    return [x.strip() for x in out if x.strip()]

def shape(t):
    t = t.strip()
    if t == "String": return ".str"
    if t == "bool": return ".bool"
    if t == "Value": return ".any"
    m = re.fullmatch(r"Option<(.*)>", t)
    if m: return f"(.opt {shape(m.group(1))})"
    m = re.fullmatch(r"Vec<(.*)>", t)
    if m: return f"(.vec {shape(m.group(1))})"
    m = re.fullmatch(r"Box<(.*)>", t)
    if m: return shape(m.group(1))
    if re.fullmatch(r"[A-Za-z_][A-Za-z0-9_]*", t): return f'(.named "{t}")'
    sys.exit(f"extract_introspection: unrecognised type `{t}`")

def fields(body):
    res = []
    for item in split_top(body):
        attrs = re.findall(r"#\[serde\(([^\]]*)\)\]", item)
        rest = re.sub(r"#\[[^\]]*\]", "", item).strip()
        m = re.fullmatch(r"(?:pub\s+)?([A-Za-z_][A-Za-z0-9_]*)\s*:\s*(.+)", rest, flags=re.S)
        if not m: sys.exit(f"extract_introspection: unrecognised member `{item}`")
        key = m.group(1)
        for a in attrs:
            r = re.search(r'rename\s*=\s*"([^"]*)"', a)
            if r: key = r.group(1)
            if not r: sys.exit(f"extract_introspection: unsupported serde attribute `{a}` on a member")
        res.append((key, shape(m.group(2))))
    return res

structs, enums = {}, {}
for m in re.finditer(r"((?:#\[[^\]]*\]\s*)*)pub\s+(struct|enum)\s+([A-Za-z0-9_]+)\s*\{", src):
    attrs, kind, name = m.group(1), m.group(2), m.group(3)
    # body: balanced braces
    i = m.end(); depth = 1
    while depth:
        if src[i] == "{": depth += 1
        if src[i] == "}": depth -= 1
        i += 1
    body = src[m.end():i - 1]
    if "Deserialize" not in attrs: sys.exit(f"extract_introspection: {name} does not derive Deserialize")
    tag = re.search(r'#\[serde\(\s*tag\s*=\s*"([^"]*)"\s*\)\]', attrs)
    other = [a for a in re.findall(r"#\[serde\(([^\]]*)\)\]", attrs) if not re.fullmatch(r'\s*tag\s*=\s*"[^"]*"\s*', a)]
    if other: sys.exit(f"extract_introspection: unsupported container attribute on {name}: {other}")
    if kind == "struct": structs[name] = (tag.group(1) if tag else None, fields(body))
    else: enums[name] = (tag.group(1) if tag else None, body)
if not structs or "IntrospectionQuery" not in structs: sys.exit("extract_introspection: IntrospectionQuery not found")

def lean_fields(fs): return "[" + ", ".join(f'⟨"{k}", {s}⟩' for k, s in fs) + "]"
decls = []
for name, (tag, fs) in structs.items():
    t = f'(some ("{tag}", "{name}"))' if tag else "none"
    decls.append(f'("{name}", .struct {t} {lean_fields(fs)})')
for name, (tag, body) in enums.items():
    variants = split_top(body)
    if tag is None:
        names = []
        for v in variants:
            if not re.fullmatch(r"[A-Za-z_][A-Za-z0-9_]*", v): sys.exit(f"extract_introspection: non-unit variant `{v}` in untagged enum {name}")
            names.append(v)
        decls.append(f'("{name}", .unitEnum [{", ".join(chr(34) + n + chr(34) for n in names)}])')
    else:
        vs = []
        for v in variants:
            m1 = re.fullmatch(r"([A-Za-z_][A-Za-z0-9_]*)\s*\(\s*([A-Za-z_][A-Za-z0-9_]*)\s*\)", v)
            m2 = re.fullmatch(r"([A-Za-z_][A-Za-z0-9_]*)\s*\{(.*)\}", v, flags=re.S)
            if m1:
                inner = m1.group(2)
                if inner not in structs or structs[inner][0] is not None: sys.exit(f"extract_introspection: variant {v} of {name} wraps an unsupported type")
                vs.append(f'("{m1.group(1)}", {lean_fields(structs[inner][1])})')
            elif m2: vs.append(f'("{m2.group(1)}", {lean_fields(fields(m2.group(2)))})')
            else: sys.exit(f"extract_introspection: unrecognised variant `{v}` in {name}")
        decls.append(f'("{name}", .tagged "{tag}" [{", ".join(vs)}])')

# the two entry points must be what the model assumes: their whole body is the serde_json call on the argument
# (written with or without a turbofish, `return`, a trailing `;`)
def fn_body(name):
    m = re.search(r"pub\s+fn\s+" + name + r"\b", src)
    if not m: return None
    k = src.find("{", m.end())
    if k < 0: return None
    depth, e = 0, k
    while e < len(src):
        if src[e] == "{": depth += 1
        elif src[e] == "}":
            depth -= 1
            if depth == 0: break
        e += 1
    body = "".join(src[k + 1:e].split())
    body = re.sub(r"::<(?:[^<>]|<[^<>]*>)*>", "", body)
    body = re.sub(r"^return", "", body).rstrip(";")
    return body
if fn_body("parse_introspection_from_string") != "serde_json::from_str(input)":
    sys.exit("extract_introspection: parse_introspection_from_string is not `serde_json::from_str(input)`")
if fn_body("parse_introspection") != "serde_json::from_reader(input)":
    sys.exit("extract_introspection: parse_introspection is not `serde_json::from_reader(input)`")

os.makedirs(OUT, exist_ok=True)
with open(os.path.join(OUT, "IntrospectionShape.lean"), "w") as f:
    f.write("/- GENERATED by translator/extract_introspection.py from /repo/src/introspection/introspection.rs - do not edit -/\n")
    f.write("import GqlVerif.Model.Codec\nnamespace Gql.Gen\nopen Gql.Codec\n\n")
    f.write("def introspectionEnv : Env :=\n  [" + ",\n   ".join(decls) + "]\n\n")
    f.write('def introspectionRoot : Shape := .named "IntrospectionQuery"\n\nend Gql.Gen\n')
