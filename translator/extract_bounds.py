#!/usr/bin/env python3
"""Regenerates lean/GqlVerif/Gen/Bounds.lean from the non-test code of the modelled Rust files: every place
where the code compares against, or cuts a sequence at, a numeric constant other than 0, 1 and 2 (`len() >= 2` is `len() > 1`) - integer / float
`const` and `static` items, comparison operators with a numeric literal >= 3 (or a float literal, or EPSILON) on one
side, and `take / skip / nth / truncate / split_at / min / max / step_by / chunks` with such a literal, `% N` and array lengths `[_; N]`.  The model
has no size, depth, count or precision threshold anywhere (lists, recursion and numbers are unbounded in it), so
the theorems of Thm/TieBounds.lean state that these lists are empty; a cap added to the code (a nesting limit, a
budget of visited nodes, a maximum number of errors, a tolerance) breaks them whatever inputs the correspondence
run happens to contain.  Comments, string literals and test code are not scanned."""
import os, re, sys
REPO = os.environ.get("VERIF_REPO", "/repo")
OUT = os.path.join(os.path.dirname(os.path.abspath(__file__)), "..", "lean", "GqlVerif", "Gen")
GROUPS = {
    "boundsVisitor": ["src/ast/operation_visitor.rs", "src/validation/validate.rs", "src/validation/utils.rs"],
    "boundsRules": None,  # every file of src/validation/rules
    "boundsCollect": ["src/ast/collect_fields.rs"],
    "boundsSchemaVisitor": ["src/ast/schema_visitor.rs"],
    "boundsTransformer": ["src/ast/operation_transformer.rs"],
    "boundsExt": ["src/ast/ext.rs"],
    "boundsIntrospection": ["src/introspection/introspection.rs"],
}
INT = r"(?:usize|isize|u8|u16|u32|u64|u128|i8|i16|i32|i64|i128|f32|f64)"
NUM = r"(\d[\d_]*(?:\.\d[\d_]*)?(?:[eE][+-]?\d+)?)(?:_?" + INT + r")?"

def strip(src):
    out, i, n = [], 0, len(src)
    while i < n:
        c = src[i]
        if src.startswith("//", i):
            j = src.find("\n", i); i = n if j < 0 else j
        elif src.startswith("/*", i):
            j = src.find("*/", i); i = n if j < 0 else j + 2
        elif c == '"':
            j = i + 1
            while j < n and src[j] != '"': j += 2 if src[j] == "\\" else 1
            out.append('""'); i = j + 1
        elif c == "r" and re.match(r'r#*"', src[i:]):
            h = re.match(r'r(#*)"', src[i:]).group(1)
            j = src.find('"' + h, i + 2 + len(h)); out.append('""'); i = n if j < 0 else j + 1 + len(h)
        elif c == "'" and re.match(r"'(\\.|[^\\'])'", src[i:]):
            m = re.match(r"'(\\.|[^\\'])'", src[i:]); out.append("' '"); i += m.end()
        else:
            out.append(c); i += 1
    return "".join(out)

def non_test(src):
    # test code sits behind #[test] / #[cfg(test)] items: drop each such item (attribute up to the end of its braces)
    while True:
        m = re.search(r"#\[(?:cfg\(test\)|test|cfg\(graphql_tools_rs_verif\))\]", src)
        if not m: return src
        # the item ends at the first `;` outside brackets, or at the brace that closes its first `{`
        j, k, d, e = -1, -1, 0, m.end()
        while e < len(src):
            ch = src[e]
            if ch in "([": d += 1
            elif ch in ")]": d -= 1
            elif ch == "{" and d == 0: j = e; break
            elif ch == ";" and d == 0: k = e; break
            e += 1
        if j < 0: src = src[:m.start()] + src[(k + 1 if k >= 0 else len(src)):]; continue
        depth, e = 0, j
        while e < len(src):
            if src[e] == "{": depth += 1
            elif src[e] == "}":
                depth -= 1
                if depth == 0: break
            e += 1
        src = src[:m.start()] + src[e + 1:]

def value(lit):
    try: return float(lit.replace("_", ""))
    except ValueError: return 2.0

def scan(path):
    full = os.path.join(REPO, path)
    if not os.path.isfile(full): sys.exit(f"extract_bounds: {path} not found")
    src = non_test(strip(open(full).read()))
    hits = []
    for m in re.finditer(r"\b(?:const|static)\s+(?:mut\s+)?([A-Za-z_][A-Za-z0-9_]*)\s*:\s*" + INT + r"\s*=\s*([^;]*);", src):
        hits.append(f"const {m.group(1)} = {' '.join(m.group(2).split())}")
    for m in re.finditer(r"(?<![=\-<>&|])(>=|<=|==|!=|>|<)(?![=<>])\s*" + NUM + r"\b", src):
        if value(m.group(2)) >= 3 or re.search(r"[.eE]", m.group(2)): hits.append(f"{m.group(1)} {m.group(2)}")
    for m in re.finditer(r"(?<![\w.])" + NUM + r"\s*(>=|<=|==|!=|>|<)(?![=<>])", src):
        if m.group(2) in (">",) and src[m.end():m.end() + 1] == ">": continue
        if value(m.group(1)) >= 3 or re.search(r"[.eE]", m.group(1)): hits.append(f"{m.group(1)} {m.group(2)}")
    for m in re.finditer(r"\.\s*(take|skip|nth|truncate|split_at|min|max|step_by|chunks|windows|rev_take)\s*\(\s*" + NUM + r"\s*\)", src):
        if value(m.group(2)) >= 3: hits.append(f".{m.group(1)}({m.group(2)})")
    for m in re.finditer(r"(%|;)\s*" + NUM + r"\s*(\]?)", src):
        if (m.group(1) == "%" or m.group(3) == "]") and value(m.group(2)) >= 3: hits.append(f"{m.group(1)} {m.group(2)}{m.group(3)}")
    for m in re.finditer(r"\bEPSILON\b|\bMAX_[A-Z_]+\b|\b[A-Z_]+_(?:LIMIT|MAX|BUDGET|CAP)\b", src):
        hits.append(m.group(0))
    return sorted(set(hits))

rules_dir = os.path.join(REPO, "src/validation/rules")
if not os.path.isdir(rules_dir): sys.exit("extract_bounds: src/validation/rules not found")
GROUPS["boundsRules"] = sorted("src/validation/rules/" + f for f in os.listdir(rules_dir) if f.endswith(".rs"))
q = lambda s: '"' + s.replace("\\", "\\\\").replace('"', '\\"') + '"'
os.makedirs(OUT, exist_ok=True)
with open(os.path.join(OUT, "Bounds.lean"), "w") as f:
    f.write("/- GENERATED by translator/extract_bounds.py from the non-test code of /repo/src - do not edit -/\nnamespace Gql.Gen\n\n")
    for g, files in GROUPS.items():
        items = [(p, h) for p in files for h in scan(p)]
        f.write(f"/-- numeric thresholds (file, occurrence) in {', '.join(files) if len(files) < 4 else str(len(files)) + ' files'} -/\n")
        f.write(f"def {g} : List (String × String) := [" + ", ".join(f"({q(p)}, {q(h)})" for p, h in items) + "]\n")
    f.write("\nend Gql.Gen\n")
