#!/usr/bin/env python3
"""Regenerates MANIFEST.json from the table below (kept in one place so it stays valid)."""
import json, os
ROOT = os.path.dirname(os.path.abspath(__file__))
props = [json.loads(l)["id"] for l in open(os.path.join(ROOT, "properties.jsonl"))]

NOTE = ("Trusted base: Lean 4.33 kernel; axioms limited to propext/Classical.choice/Quot.sound (audited per run); the hand-written "
        "Lean model is tied to /repo by the differential correspondence run in this check (generator-bounded) and by Gen/*.lean tables "
        "regenerated from the source; Spec definitions are my transcription of the GraphQL spec; graphql-parser, serde, HashMap, threads, "
        "stack and wall-clock are modelled or out of the model (DESIGN section 8).")

CLAIMS = {
 "C19": ("proof", "Machine-checked (Lean 4): collect_fields never runs out of the model's fuel on any document, cyclic fragment graphs included (collect_terminates: every expansion removes a fragment definition from the unvisited set); its result is the grouping by response key of exactly the fields gathered by the spec's CollectFields, formalised as the fuel-free inductive relation Collects (collect_sound, collects_functional, collect_eq_spec; hypothesis: the parent is an object type of a schema with unique type names), and the group under a key is the list of collected fields with that response key in encounter order (group_lookup). Tied to the code by comparing the groups for every selection set x every object type on a bounded-exhaustive family (aliases, type conditions of every relation to the parent, fragment cycles, unknown fragments) and random documents.", "6 C19", "Lean refinement to an inductive spec relation + fuel adequacy + exhaustive/random differential run"),
 "C09": ("proof", "Machine-checked (Lean 4): the report of 'known argument names' is exactly the per-owner check - every argument of every occurrence of a known field (under its parent type) or declared directive against that node's own declaration (ka_document: the slot always belongs to the node whose arguments are being visited, for any nesting and any stale value on entry); hence it reports iff an argument is undeclared on its known owner and every error names that owner (knownArgumentNames_iff, knownArgumentNames_owner); 'unique argument names' reports iff one field/directive has two arguments of one name; 'provided required arguments' iff a declared non-null argument without default is missing. Tied to the code by verdict + owner-message comparison on an exhaustive family of argument lists over all owner kinds and on random documents.", "6 C09", "Lean iff-theorems (slot invariant over the walk) + exhaustive small-alphabet and random differential run"),
 "C04": ("proof", "Machine-checked (Lean 4): run alone, 'fields on correct type' reports iff some non-meta field is selected on a schema-known type that does not define it (or __typename sits directly at a subscription root - the extra report the statement allows), 'leaf field selections' iff a leaf-typed field has a sub-selection or a non-leaf-typed one lacks it; positions and their types are those of the lexically scoped walk proved equal to the visitor's stack machine (C16); every error carries the rule's code (C13.codes). Tied to the code by comparing the two rules' verdicts on a bounded-exhaustive enumeration of small selection trees over a schema with object/interface/union/wrapped types and on random documents over curated and random schemas.", "6 C04", "Lean iff-theorems via the C16 refinement + bounded-exhaustive and random differential run"),
 "C10": ("proof", "Machine-checked (Lean 4): 'known directives' reports iff some directive is undeclared or used at a location its declaration does not list - the proof carries the slot invariant (recent_location = location of the node whose directives are being visited) through the whole traversal, for every nesting; 'unique directives per location' reports iff a declared non-repeatable directive occurs at least twice on one node (knownDirectives_iff, uniqueDirectives_iff; hypothesis: unique directive names, query root present). Tied to the code by verdict comparison on a ten-slot document family covering every location kind x declared location set x multiplicity, nested owners, and random documents.", "6 C10", "Lean iff-theorems (slot invariant over the event fold) + systematic and random differential run"),
 "C13": ("proof", "Machine-checked (Lean 4): with the balanced visitor every rule of a plan runs on the same callback trace, so validate(plan) is the in-order concatenation of the single-rule results (validateGrouped_eq_singles, validate_eq_flatMap_single, validate_append); every error of every rule carries that rule's code (codes, for all 24 rules and any trace); the default plan and the error_code literals are regenerated from the Rust sources on every run and proved to contain each of the 24 rules exactly once / be the identity (Gen/*.lean, by decide). On the implementation the union property is checked directly for the default plan and random plans (sub-sequences, repetitions, permutations), as are codes, non-empty messages, locations being node positions and the exact JSON shape; the model is compared per rule on error locations.", "6 C13", "Lean theorems (algebraic law via stack balance; code invariant over the event fold) + generated tables + differential run"),
 "C12": ("proof", "PARTIAL proof: the model's validate is a function by construction; proved are the facts that make the real code behave like it - every rule hands the shared context back unchanged and sees the trace of a fresh context whatever ran before (context_restored, rule_sees_same_trace), and the generated inventory of process-wide/interior-mutable state is exactly the two immutable lazy_static defaults (shared_state_inventory, rfl against a file regenerated from /repo/src). Thread interleavings, hasher state and the second parser backend are NOT expressible in the model: they are explored by the run (repeated, interleaved, 16-thread and fork-backend results, each compared with one model prediction including messages).", "6 C12", "Lean invariants + generated state inventory; exploration for threads/backends (labelled partial)"),
 "C18": ("proof", "Machine-checked (Lean 4): is_subtype decides the inductive spec relation Subtype (hence reflexive; transitive on well-formed schemas), Value::compare is tree equality, variables_in_use = variable leaves, is_required = non-null without default, lookups return the definition of that name iff one exists (and type_map agrees under unique names), roots resolve to the schema definition's entries or the default names, possible_types = implementing/member objects, do_types_overlap = same type or intersecting possible sets, symmetric (Thm/C18.lean, 16 obligations). Tied to the code by exhaustive per-schema answer matrices of the real helpers compared with the model's, plus direct checks of reflexivity/transitivity/symmetry/tree-equality on the implementation's own answers.", "6 C18", "Lean theorems (decision procedures = inductive spec relations) + exhaustive differential matrices"),
 "C15": ("proof", "Machine-checked (Lean 4): for every schema, document and start context the model visitor's callback sequence equals the schema-independent pre/post-order traversal, is well nested with matching payloads, and child lists are visited in list order (Thm/C15.lean). The model is tied to the real visitor by a per-callback differential run (recording OperationVisitor vs compiled Lean driver) on generated documents over all pool schemas incl. one that knows none of the names.", "6 C15", "Lean theorem (refinement to traversal) + differential correspondence"),
 "C16": ("proof", "Machine-checked (Lean 4): the six-stack machine of the visitor is lexical scoping - from any start context it makes exactly the callbacks with exactly the context answers and stack depths of the environment-passing walk of Spec/Walk.lean, and returns the stacks it was given (Thm/C16.lean: snapshots_eq_walk, stacks_balanced, root resolution = specRoot). Tied to the code by comparing all six accessors and the (cfg-hooked) stack depths inside every callback and after the walk.", "6 C16", "Lean theorem (stack machine = lexical type environment) + differential correspondence"),
}

checks = []
for p in props:
    if p not in CLAIMS: continue
    cat, text, ref, tech = CLAIMS[p]
    checks.append({
        "property_id": p,
        "quick_cmd": f"./check {p} --tier quick",
        "thorough_cmd": f"./check {p} --tier thorough",
        "evidence_file": f"/verif/evidence/{p}.json",
        "replay_cmd_template": f"./check {p} --replay {{path}}",
        "engine": "lean4-model+correspondence",
        "level_claimed": {"category": cat, "text": text, "design_ref": ref},
        "level_note": NOTE,
        "technique": tech,
    })
m = {
 "version": 1,
 "setup_cmd": "./check setup",
 "hooks": {"guard": "graphql_tools_rs_verif",
           "enable": "RUSTFLAGS='--cfg graphql_tools_rs_verif' when ./check builds /verif/harness (path dependency on /repo)",
           "baseline_off_cmd": "cd /repo && cargo test --workspace --no-fail-fast --offline",
           "source_commits": ["2807730"], "add_only": True},
 "engines": [{"name": "lean4-model+correspondence", "path": "/verif/lean, /verif/harness, /verif/check",
              "serves_properties": [c["property_id"] for c in checks],
              "kind_free_text": "Lean 4 model + Spec + theorems (lake), compiled line-protocol driver, Rust differential harness (path dep on /repo), python orchestrator"}],
 "checks": checks,
 "not_applicable": [{"property_id": p, "reason": "not yet claimed in this commit: model/theorems/correspondence for it are under construction (see DESIGN.md section 6); nothing about the technique makes it inapplicable"} for p in props if p not in CLAIMS],
 "notes": "All checks: ./check <id> [--tier quick|thorough] [--replay file]; VERIF_SEED seeds the single PRNG. known_findings.json lists recorded defects and fixed ones.",
}
json.dump(m, open(os.path.join(ROOT, "MANIFEST.json"), "w"), indent=1)
print("claimed:", [c["property_id"] for c in checks])
