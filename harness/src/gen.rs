//! Document generators.  Documents are produced as GraphQL text and parsed by graphql-parser,
//! so positions are real.  `noise` = percent chance, at each choice point, of deviating from
//! the schema-directed (valid) choice.
use crate::rng::Rng;
use graphql_tools::ast::*;
use graphql_tools::static_graphql::{query as q, schema as s};
use std::collections::BTreeMap;

pub struct SchemaInfo {
    pub name: String,
    pub text: String,
    pub doc: s::Document,
}

impl SchemaInfo {
    pub fn new(name: &str, text: &str) -> Self {
        let doc = graphql_tools::parser::parse_schema::<String>(text).expect("schema parses").into_static();
        SchemaInfo { name: name.to_string(), text: text.to_string(), doc }
    }
    pub fn types(&self) -> Vec<&s::TypeDefinition> {
        self.doc.definitions.iter().filter_map(|d| match d { s::Definition::TypeDefinition(t) => Some(t), _ => None }).collect()
    }
    pub fn type_names(&self) -> Vec<String> { self.types().iter().map(|t| t.name().to_string()).collect() }
    pub fn composite_names(&self) -> Vec<String> { self.types().iter().filter(|t| t.is_composite_type()).map(|t| t.name().to_string()).collect() }
    pub fn input_names(&self) -> Vec<String> { self.types().iter().filter(|t| t.is_input_type()).map(|t| t.name().to_string()).collect() }
    pub fn object_names(&self) -> Vec<String> { self.types().iter().filter(|t| t.is_object_type()).map(|t| t.name().to_string()).collect() }
    pub fn directives(&self) -> Vec<&s::DirectiveDefinition> {
        self.doc.definitions.iter().filter_map(|d| match d { s::Definition::DirectiveDefinition(t) => Some(t), _ => None }).collect()
    }
    pub fn fields_of(&self, tname: &str) -> Vec<&s::Field> {
        match self.doc.type_by_name(tname) {
            Some(s::TypeDefinition::Object(o)) => o.fields.iter().collect(),
            Some(s::TypeDefinition::Interface(o)) => o.fields.iter().collect(),
            _ => vec![],
        }
    }
    /// names of composite types whose possible objects intersect those of `tname`
    pub fn overlapping(&self, tname: &str) -> Vec<String> {
        let t = match self.doc.type_by_name(tname) { Some(t) => t, None => return vec![] };
        self.types().into_iter().filter(|u| u.is_composite_type() && t.is_composite_type()
            && graphql_tools::validation::rules::do_types_overlap(&self.doc, t, u)).map(|u| u.name().to_string()).collect()
    }
    pub fn root_name(&self, kind: &str) -> Option<String> {
        match kind {
            "query" => self.doc.schema_definition().query.clone().or(Some("Query".into())),
            "mutation" => self.doc.mutation_type().map(|t| t.name.clone()),
            "subscription" => self.doc.subscription_type().map(|t| t.name.clone()),
            _ => None,
        }.filter(|n| self.doc.object_type_by_name(n).is_some())
    }
}

pub const NAME_POOL: [&str; 8] = ["a", "b", "name", "id", "nope", "x", "self", "__typename"];
pub const TYPE_POOL: [&str; 6] = ["Zed", "Int", "String", "Query", "A", "__Foo"];

struct FragRec { name: String, on: String, vars: Vec<(String, String)>, text: String, done: bool }

pub struct DocGen<'s> {
    pub s: &'s SchemaInfo,
    pub rng: Rng,
    pub noise: usize,
    pub max_depth: usize,
    frags: Vec<FragRec>,
    cur_vars: Vec<(String, String, Option<String>)>,
    counter: usize,
    in_progress: Vec<String>,
}

fn ty_str(t: &q::Type) -> String { format!("{}", t) }

impl<'s> DocGen<'s> {
    pub fn new(s: &'s SchemaInfo, rng: Rng, noise: usize, max_depth: usize) -> Self {
        DocGen { s, rng, noise, max_depth, frags: vec![], cur_vars: vec![], counter: 0, in_progress: vec![] }
    }
    fn fresh(&mut self, p: &str) -> String { self.counter += 1; format!("{}{}", p, self.counter) }
    fn noisy(&mut self) -> bool { let n = self.noise; self.rng.pct(n) }

    fn any_literal(&mut self, depth: usize) -> String {
        match self.rng.below(if depth > 2 { 8 } else { 10 }) {
            0 => "1".into(), 1 => "2147483648".into(), 2 => "1.5".into(), 3 => "\"s\"".into(), 4 => "true".into(),
            5 => "null".into(), 6 => "RED".into(), 7 => "$zz".into(),
            8 => { let n = self.rng.below(3); format!("[{}]", (0..n).map(|_| self.any_literal(depth + 1)).collect::<Vec<_>>().join(", ")) }
            _ => { let n = self.rng.below(3); let keys = ["x", "y", "k", "req"];
                   let mut m = BTreeMap::new(); for _ in 0..n { let k = *self.rng.pick(&keys); let v = self.any_literal(depth + 1); m.insert(k, v); }
                   format!("{{{}}}", m.iter().map(|(k, v)| format!("{}: {}", k, v)).collect::<Vec<_>>().join(", ")) }
        }
    }

    /// literal (or variable) for expected type `t`
    pub fn value(&mut self, t: &q::Type, depth: usize, allow_var: bool) -> String {
        if self.noisy() { return self.any_literal(depth); }
        if allow_var && self.rng.pct(6) {
            if let q::Type::NonNullType(inner) = t {
                // a NULLABLE variable with a non-null default where a non-null type is expected: allowed by the spec
                let name = self.fresh("v");
                let default = self.value_nn(inner, depth + 1, false);
                self.cur_vars.push((name.clone(), ty_str(inner), Some(default)));
                return format!("${}", name);
            }
        }
        if allow_var && self.rng.pct(18) {
            // a variable whose type is the location type or a non-null strengthening of it
            let vt = if self.rng.pct(30) { match t { q::Type::NonNullType(_) => ty_str(t), _ => format!("{}!", ty_str(t)) } } else { ty_str(t) };
            let name = self.fresh("v");
            let default = if self.rng.pct(25) && !vt.ends_with('!') { Some(self.value(t, depth + 1, false)) } else { None };
            self.cur_vars.push((name.clone(), vt, default));
            return format!("${}", name);
        }
        match t {
            q::Type::NonNullType(i) => { let v = self.value_nn(i, depth, allow_var); v }
            _ => if self.rng.pct(8) { "null".into() } else { self.value_nn(t, depth, allow_var) }
        }
    }
    fn value_nn(&mut self, t: &q::Type, depth: usize, allow_var: bool) -> String {
        match t {
            q::Type::NonNullType(i) => self.value_nn(i, depth, allow_var),
            q::Type::ListType(i) => {
                if self.rng.pct(12) { return self.value(i, depth + 1, allow_var); } // lone item
                let n = if depth > 3 { 0 } else { self.rng.below(3) };
                format!("[{}]", (0..n).map(|_| self.value(i, depth + 1, allow_var)).collect::<Vec<_>>().join(", "))
            }
            q::Type::NamedType(n) => match self.s.doc.type_by_name(n) {
                Some(s::TypeDefinition::Scalar(_)) => match n.as_str() {
                    "Int" => (*self.rng.pick(&["0", "1", "-7", "2147483647", "-2147483648"])).into(),
                    "Float" => (*self.rng.pick(&["1.5", "2", "-0.25", "1e3"])).into(),
                    "String" => (*self.rng.pick(&["\"s\"", "\"\"", "\"abc\""])).into(),
                    "Boolean" => (*self.rng.pick(&["true", "false"])).into(),
                    "ID" => (*self.rng.pick(&["\"id1\"", "7"])).into(),
                    _ => self.any_literal(depth + 1).replace("$zz", "3"),
                },
                Some(s::TypeDefinition::Enum(e)) => { let vs: Vec<String> = e.values.iter().map(|v| v.name.clone()).collect(); self.rng.pick(&vs).clone() }
                Some(s::TypeDefinition::InputObject(io)) => {
                    let mut m = BTreeMap::new();
                    let fields: Vec<s::InputValue> = io.fields.clone();
                    for f in &fields {
                        if f.is_required() || (depth < 3 && self.rng.pct(40)) {
                            let v = self.value(&f.value_type, depth + 1, allow_var);
                            m.insert(f.name.clone(), v);
                        }
                    }
                    if self.noisy() { m.insert("zzz".into(), "1".into()); }
                    format!("{{{}}}", m.iter().map(|(k, v)| format!("{}: {}", k, v)).collect::<Vec<_>>().join(", "))
                }
                _ => self.any_literal(depth + 1),
            },
        }
    }

    fn arguments(&mut self, defs: &[s::InputValue]) -> String {
        let mut parts = vec![];
        for d in defs {
            let skip_required = d.is_required() && self.noisy();
            if (d.is_required() && !skip_required) || (!d.is_required() && self.rng.pct(45)) {
                let v = self.value(&d.value_type, 0, true);
                parts.push(format!("{}: {}", d.name, v));
                if self.noisy() && self.rng.pct(30) { let v = self.value(&d.value_type, 0, true); parts.push(format!("{}: {}", d.name, v)); }
            }
        }
        if self.noisy() { let l = self.any_literal(1); parts.push(format!("{}: {}", self.rng.pick(&["zz", "x", "if"]), l)); }
        self.rng.clone().shuffle(&mut parts);
        if parts.is_empty() { String::new() } else { format!("({})", parts.join(", ")) }
    }

    fn directives(&mut self, loc: s::DirectiveLocation) -> String {
        let mut out = String::new();
        if !self.rng.pct(22) { return out; }
        let all: Vec<s::DirectiveDefinition> = self.s.directives().into_iter().cloned().collect();
        let n = 1 + self.rng.below(2);
        let mut used: Vec<String> = vec![];
        for _ in 0..n {
            if self.noisy() {
                if self.rng.pct(50) { out.push_str(" @unknownDir(z: 1)"); continue; }
                if !all.is_empty() { let d = self.rng.pick(&all).clone(); let a = self.arguments(&d.arguments); out.push_str(&format!(" @{}{}", d.name, a)); }
                continue;
            }
            let ok: Vec<&s::DirectiveDefinition> = all.iter().filter(|d| d.locations.contains(&loc) && (d.repeatable || !used.contains(&d.name))).collect();
            if ok.is_empty() { continue; }
            let d = (*self.rng.pick(&ok)).clone();
            used.push(d.name.clone());
            let a = self.arguments(&d.arguments);
            out.push_str(&format!(" @{}{}", d.name, a));
        }
        out
    }

    fn field(&mut self, parent: Option<&str>, depth: usize, budget: &mut usize) -> String {
        let fields: Vec<s::Field> = parent.map(|p| self.s.fields_of(p).into_iter().cloned().collect()).unwrap_or_default();
        let mut def: Option<s::Field> = None;
        let name: String;
        if fields.is_empty() || self.noisy() {
            name = if self.rng.pct(20) { (*self.rng.pick(&["__typename", "__schema", "__type", "__foo"])).to_string() } else { (*self.rng.pick(&NAME_POOL)).to_string() };
            def = fields.iter().find(|f| f.name == name).cloned();
        } else if self.rng.pct(7) { name = "__typename".into(); }
        else { let f = self.rng.pick(&fields).clone(); name = f.name.clone(); def = Some(f); }
        let alias = if self.rng.pct(if def.as_ref().map(|d| !d.arguments.is_empty()).unwrap_or(false) { 60 } else { 12 }) {
            if self.noisy() { format!("{}: ", self.rng.pick(&NAME_POOL)) } else { format!("{}: ", self.fresh("k")) }
        } else { String::new() };
        let args = match &def { Some(d) => self.arguments(&d.arguments), None => if self.rng.pct(30) { "(z: 1)".to_string() } else { String::new() } };
        let dirs = self.directives(s::DirectiveLocation::Field);
        let inner_name = def.as_ref().map(|d| d.field_type.inner_type().to_string());
        let composite = inner_name.as_ref().and_then(|n| self.s.doc.type_by_name(n)).map(|t| t.is_composite_type());
        let want_sub = match composite { Some(c) => if self.noisy() { !c } else { c }, None => self.rng.pct(40) && name != "__typename" };
        let sub = if want_sub && depth < self.max_depth + 2 { format!(" {}", self.selset(inner_name.as_deref(), depth + 1, budget)) }
                  else if want_sub { " { __typename }".to_string() } else { String::new() };
        format!("{}{}{}{}{}", alias, name, args, dirs, sub)
    }

    fn type_condition(&mut self, parent: Option<&str>) -> String {
        if self.noisy() || parent.is_none() { return (*self.rng.pick(&TYPE_POOL)).to_string(); }
        let ov = self.s.overlapping(parent.unwrap());
        if ov.is_empty() { parent.unwrap().to_string() } else { self.rng.pick(&ov).clone() }
    }

    /// a new named fragment applicable at `parent`, generated on demand; returns its name
    fn new_fragment(&mut self, parent: Option<&str>, depth: usize, budget: &mut usize) -> String {
        let name = self.fresh("F");
        let on = self.type_condition(parent);
        self.in_progress.push(name.clone());
        let saved = std::mem::take(&mut self.cur_vars);
        let dirs = self.directives(s::DirectiveLocation::FragmentDefinition);
        let body = self.selset(Some(&on), depth + 1, budget);
        let vars: Vec<(String, String, Option<String>)> = std::mem::replace(&mut self.cur_vars, saved);
        for v in &vars { self.cur_vars.push(v.clone()); }
        self.in_progress.pop();
        self.frags.push(FragRec { name: name.clone(), on: on.clone(), vars: vars.iter().map(|v| (v.0.clone(), v.1.clone())).collect(),
            text: format!("fragment {} on {}{} {}", name, on, dirs, body), done: true });
        name
    }

    fn spread(&mut self, parent: Option<&str>, depth: usize, budget: &mut usize) -> String {
        let dirs = self.directives(s::DirectiveLocation::FragmentSpread);
        if self.noisy() {
            let mut pool: Vec<String> = self.in_progress.clone();
            pool.push("Nope".into());
            pool.extend(self.frags.iter().map(|f| f.name.clone()));
            return format!("...{}{}", self.rng.pick(&pool), dirs);
        }
        let ov: Vec<String> = parent.map(|p| self.s.overlapping(p)).unwrap_or_default();
        let reusable: Vec<usize> = self.frags.iter().enumerate().filter(|(_, f)| f.done && ov.contains(&f.on)).map(|(i, _)| i).collect();
        if !reusable.is_empty() && self.rng.pct(50) {
            let i = *self.rng.pick(&reusable);
            let vars = self.frags[i].vars.clone();
            for (n, t) in vars { if !self.cur_vars.iter().any(|v| v.0 == n) { self.cur_vars.push((n, t, None)); } }
            return format!("...{}{}", self.frags[i].name, dirs);
        }
        if depth >= self.max_depth || self.frags.len() >= 5 { return "__typename".into(); }
        let n = self.new_fragment(parent, depth, budget);
        format!("...{}{}", n, dirs)
    }

    pub fn selset(&mut self, parent: Option<&str>, depth: usize, budget: &mut usize) -> String {
        let n = if depth >= self.max_depth { 1 } else { 1 + self.rng.below(3) };
        let mut items = vec![];
        for _ in 0..n {
            if *budget == 0 { break; }
            *budget -= 1;
            let r = self.rng.below(100);
            if r < 70 || depth >= self.max_depth { items.push(self.field(parent, depth, budget)); }
            else if r < 85 {
                let dirs = self.directives(s::DirectiveLocation::InlineFragment);
                if self.rng.pct(25) { let b = self.selset(parent, depth + 1, budget); items.push(format!("...{} {}", dirs, b)); }
                else { let tc = self.type_condition(parent); let b = self.selset(Some(&tc), depth + 1, budget); items.push(format!("... on {}{} {}", tc, dirs, b)); }
            } else { items.push(self.spread(parent, depth, budget)); }
        }
        if items.is_empty() { items.push("__typename".into()); }
        format!("{{ {} }}", items.join(" "))
    }

    fn var_defs(&mut self) -> String {
        let mut vars = std::mem::take(&mut self.cur_vars);
        if self.noisy() { vars.push(("unused".into(), "Int".into(), None)); }
        if self.noisy() && !vars.is_empty() { let v = vars[0].clone(); vars.push(v); }
        if self.noisy() { vars.push(("bad".into(), self.rng.pick(&TYPE_POOL).to_string(), None)); }
        if vars.is_empty() { return String::new(); }
        format!("({})", vars.iter().map(|(n, t, d)| match d { Some(d) => format!("${}: {} = {}", n, t, d), None => format!("${}: {}", n, t) }).collect::<Vec<_>>().join(", "))
    }

    pub fn document(&mut self) -> String {
        let n_ops = if self.rng.pct(70) { 1 } else { 2 + self.rng.below(2) };
        let mut ops = vec![];
        for i in 0..n_ops {
            let kinds = ["query", "query", "query", "mutation", "subscription"];
            let mut kind = *self.rng.pick(&kinds);
            if self.s.root_name(kind).is_none() && !self.noisy() { kind = "query"; }
            let root = self.s.root_name(kind);
            let mut budget = 4 + self.rng.below(14);
            self.cur_vars.clear();
            let body = if kind == "subscription" && !self.noisy() {
                let f = self.field(root.as_deref(), 1, &mut budget); format!("{{ {} }}", f)
            } else { self.selset(root.as_deref(), 0, &mut budget) };
            let loc = match kind { "mutation" => s::DirectiveLocation::Mutation, "subscription" => s::DirectiveLocation::Subscription, _ => s::DirectiveLocation::Query };
            let dirs = self.directives(loc);
            let vars = self.var_defs();
            let anonymous = (n_ops == 1 && self.rng.pct(50)) || self.noisy();
            let name = if anonymous { String::new() } else if self.noisy() { " Op".to_string() } else { format!(" Op{}", i) };
            if kind == "query" && anonymous && vars.is_empty() && dirs.is_empty() && self.rng.pct(60) { ops.push(body); }
            else { ops.push(format!("{}{}{}{} {}", kind, name, vars, dirs, body)); }
        }
        let mut defs: Vec<String> = ops;
        for f in &self.frags { defs.push(f.text.clone()); }
        if self.noisy() { defs.push("fragment Unused on Query { __typename }".into()); }
        if self.noisy() && !self.frags.is_empty() { defs.push(self.frags[0].text.clone()); }
        if self.rng.pct(30) { self.rng.clone().shuffle(&mut defs); }
        defs.join("\n")
    }
}

pub fn parse_doc(text: &str) -> Option<q::Document> {
    graphql_tools::parser::parse_query::<String>(text).ok().map(|d| d.into_static())
}

// ---------------------------------------------------------------- random well-formed schemas
fn wrap(rng: &mut Rng, base: &str, depth: usize) -> String {
    let mut t = base.to_string();
    for _ in 0..depth {
        match rng.below(3) { 0 => { if !t.ends_with('!') { t.push('!'); } } 1 => { t = format!("[{}]", t); } _ => {} }
    }
    t
}

fn simple_default(rng: &mut Rng, ty: &str, enums: &[(String, Vec<String>)]) -> Option<String> {
    // literal for a (possibly wrapped) built-in scalar / enum type; None for anything else
    let t = ty.trim_end_matches('!');
    if t.starts_with('[') {
        let inner = &t[1..t.len() - 1];
        let n = rng.below(3);
        let mut items = vec![];
        for _ in 0..n { items.push(simple_default(rng, inner, enums)?); }
        return Some(format!("[{}]", items.join(", ")));
    }
    match t {
        "Int" => Some((*rng.pick(&["0", "1", "-3"])).to_string()),
        "Float" => Some((*rng.pick(&["1.5", "2"])).to_string()),
        "String" => Some("\"d\"".to_string()),
        "Boolean" => Some((*rng.pick(&["true", "false"])).to_string()),
        "ID" => Some("\"i\"".to_string()),
        _ => enums.iter().find(|e| e.0 == t).map(|e| rng.pick(&e.1).clone()),
    }
}

/// A random schema that is self-contained and well-formed by construction.
pub fn random_schema(rng: &mut Rng) -> String {
    let mut out = String::from(crate::schemas::PRELUDE);
    let mut enums: Vec<(String, Vec<String>)> = vec![];
    for i in 0..rng.range(1, 2) {
        let vals: Vec<String> = (0..rng.range(2, 3)).map(|j| format!("V{}{}", i, j)).collect();
        out.push_str(&format!("enum E{} {{ {} }}\n", i, vals.join(" ")));
        enums.push((format!("E{}", i), vals));
    }
    let mut input_base: Vec<String> = vec!["Int".into(), "Float".into(), "String".into(), "Boolean".into(), "ID".into()];
    input_base.extend(enums.iter().map(|e| e.0.clone()));
    if rng.pct(50) { out.push_str("scalar Custom\n"); input_base.push("Custom".into()); }
    let n_inputs = rng.range(1, 3);
    for i in 0..n_inputs {
        let mut fields = vec![];
        for j in 0..rng.range(1, 4) {
            let base = rng.pick(&input_base).clone();
            let mut ty = { let d = rng.below(3); wrap(rng, &base, d) };
            // no required self-reference cycles: input objects only reference earlier ones (plus nullable self)
            if base.starts_with("In") && base == format!("In{}", i) { ty = base.clone(); }
            let d = if rng.pct(35) { simple_default(rng, &ty, &enums).map(|d| format!(" = {}", d)).unwrap_or_default() } else { String::new() };
            fields.push(format!("f{}: {}{}", j, ty, d));
        }
        out.push_str(&format!("input In{} {{ {} }}\n", i, fields.join(" ")));
        input_base.push(format!("In{}", i));
    }
    let gen_args = |rng: &mut Rng, input_base: &Vec<String>, enums: &Vec<(String, Vec<String>)>| -> String {
        if !rng.pct(45) { return String::new(); }
        let mut a = vec![];
        for j in 0..rng.range(1, 3) {
            let base = rng.pick(input_base).clone();
            let ty = { let d = rng.below(3); wrap(rng, &base, d) };
            let d = if rng.pct(35) { simple_default(rng, &ty, enums).map(|d| format!(" = {}", d)).unwrap_or_default() } else { String::new() };
            a.push(format!("a{}: {}{}", j, ty, d));
        }
        format!("({})", a.join(", "))
    };
    // interfaces: each implements a down-closed set of earlier ones and repeats their fields
    let n_if = rng.below(4);
    let mut iface_impl: Vec<Vec<usize>> = vec![];
    let mut iface_fields: Vec<Vec<String>> = vec![];
    let n_obj = rng.range(2, 5);
    let mut out_base: Vec<String> = vec!["Int".into(), "String".into(), "Boolean".into(), "ID".into(), "Float".into()];
    out_base.extend(enums.iter().map(|e| e.0.clone()));
    for i in 0..n_if { out_base.push(format!("I{}", i)); }
    for i in 0..n_obj { out_base.push(format!("O{}", i)); }
    let n_un = rng.below(3);
    for i in 0..n_un { out_base.push(format!("U{}", i)); }
    let mut fcount = 0;
    for i in 0..n_if {
        let mut imp: Vec<usize> = vec![];
        for j in 0..i { if rng.pct(40) { for k in &iface_impl[j] { if !imp.contains(k) { imp.push(*k); } } if !imp.contains(&j) { imp.push(j); } } }
        imp.sort();
        let mut fields: Vec<String> = vec![];
        for j in &imp { for f in &iface_fields[*j] { if !fields.iter().any(|g: &String| g.split(|c| c == '(' || c == ':').next() == f.split(|c| c == '(' || c == ':').next()) { fields.push(f.clone()); } } }
        for _ in 0..rng.range(1, 2) {
            let base = rng.pick(&out_base).clone();
            let ty = { let d = rng.below(3); wrap(rng, &base, d) };
            fields.push(format!("g{}{}: {}", fcount, gen_args(rng, &input_base, &enums), ty));
            fcount += 1;
        }
        let impl_s = if imp.is_empty() { String::new() } else { format!(" implements {}", imp.iter().map(|j| format!("I{}", j)).collect::<Vec<_>>().join(" & ")) };
        out.push_str(&format!("interface I{}{} {{ {} }}\n", i, impl_s, fields.join(" ")));
        iface_impl.push(imp);
        iface_fields.push(fields);
    }
    for i in 0..n_obj {
        let mut imp: Vec<usize> = vec![];
        for j in 0..n_if { if rng.pct(35) { for k in &iface_impl[j] { if !imp.contains(k) { imp.push(*k); } } if !imp.contains(&j) { imp.push(j); } } }
        imp.sort();
        let mut fields: Vec<String> = vec![];
        for j in &imp { for f in &iface_fields[*j] { if !fields.iter().any(|g: &String| g.split(|c| c == '(' || c == ':').next() == f.split(|c| c == '(' || c == ':').next()) { fields.push(f.clone()); } } }
        for _ in 0..rng.range(1, 3) {
            let base = rng.pick(&out_base).clone();
            let ty = { let d = rng.below(3); wrap(rng, &base, d) };
            fields.push(format!("h{}{}: {}", fcount, gen_args(rng, &input_base, &enums), ty));
            fcount += 1;
        }
        if rng.pct(50) { fields.push("name: String".into()); }
        let impl_s = if imp.is_empty() { String::new() } else { format!(" implements {}", imp.iter().map(|j| format!("I{}", j)).collect::<Vec<_>>().join(" & ")) };
        out.push_str(&format!("type O{}{} {{ {} }}\n", i, impl_s, fields.join(" ")));
    }
    for i in 0..n_un {
        let mut members: Vec<String> = (0..n_obj).filter(|_| rng.pct(50)).map(|j| format!("O{}", j)).collect();
        if members.is_empty() { members.push("O0".into()); }
        out.push_str(&format!("union U{} = {}\n", i, members.join(" | ")));
    }
    let explicit = rng.pct(50);
    let (qn, mn, sn) = if explicit { ("RootQ", "RootM", "RootS") } else { ("Query", "Mutation", "Subscription") };
    let mut root_fields = |rng: &mut Rng, n: usize| -> String {
        let mut fs = vec![];
        for j in 0..n {
            let base = rng.pick(&out_base).clone();
            let ty = { let d = rng.below(3); wrap(rng, &base, d) };
            fs.push(format!("r{}{}: {}", j, gen_args(rng, &input_base, &enums), ty));
        }
        fs.join(" ")
    };
    let n_q = rng.range(2, 5);
    let qf = root_fields(rng, n_q);
    out.push_str(&format!("type {} {{ {} }}\n", qn, qf));
    let has_m = rng.pct(60); let has_s = rng.pct(60);
    if has_m { let f = root_fields(rng, 2); out.push_str(&format!("type {} {{ {} }}\n", mn, f)); }
    if has_s { let f = root_fields(rng, 2); out.push_str(&format!("type {} {{ {} }}\n", sn, f)); }
    if explicit {
        out.push_str(&format!("schema {{ query: {}{}{} }}\n", qn, if has_m { format!(" mutation: {}", mn) } else { String::new() }, if has_s { format!(" subscription: {}", sn) } else { String::new() }));
    }
    let locs = ["QUERY", "MUTATION", "SUBSCRIPTION", "FIELD", "FRAGMENT_DEFINITION", "FRAGMENT_SPREAD", "INLINE_FRAGMENT"];
    for i in 0..rng.range(2, 4) {
        let mut ls: Vec<&str> = locs.iter().filter(|_| rng.pct(40)).cloned().collect();
        if ls.is_empty() { ls.push("FIELD"); }
        if rng.pct(20) { ls.push("OBJECT"); }
        out.push_str(&format!("directive @d{}{}{} on {}\n", i, gen_args(rng, &input_base, &enums), if rng.pct(40) { " repeatable" } else { "" }, ls.join(" | ")));
    }
    out
}
