//! C19: collect_fields called on every selection set of a document with every object type of the
//! schema as parent type.
use crate::{enc, gen, intern::id, Out};
use graphql_tools::ast::{collect_fields, OperationVisitorContext};
use graphql_tools::static_graphql::{query as q, schema as s};
use serde_json::{json, Value as J};

fn all_selsets<'a>(ss: &'a q::SelectionSet, out: &mut Vec<&'a q::SelectionSet>) {
    out.push(ss);
    for x in &ss.items {
        match x {
            q::Selection::Field(f) => all_selsets(&f.selection_set, out),
            q::Selection::InlineFragment(f) => all_selsets(&f.selection_set, out),
            q::Selection::FragmentSpread(_) => {}
        }
    }
}

pub fn collect_case(si: &gen::SchemaInfo, text: &str, out: &mut Out) { collect_case_sets(si, text, true, out) }

/// `all`: every selection set of the document; otherwise only the selection sets of fragment-free depth 0 of the operations
pub fn collect_case_sets(si: &gen::SchemaInfo, text: &str, all: bool, out: &mut Out) {
    use graphql_tools::ast::OperationDefinitionExtension;
    let doc = match gen::parse_doc(text) { Some(d) => d, None => return };
    let mut sets = vec![];
    for d in &doc.definitions {
        match d { q::Definition::Operation(o) => if all { all_selsets(o.selection_set(), &mut sets) } else { sets.push(o.selection_set()) },
                  q::Definition::Fragment(f) => if all { all_selsets(&f.selection_set, &mut sets) } }
    }
    let objects: Vec<&s::TypeDefinition> = si.types().into_iter().filter(|t| matches!(t, s::TypeDefinition::Object(_))).collect();
    let r = std::panic::catch_unwind(std::panic::AssertUnwindSafe(|| {
        let ctx = OperationVisitorContext::new(&doc, &si.doc);
        let mut res: Vec<J> = vec![];
        for ss in &sets {
            for t in &objects {
                let m = collect_fields(ss, t, &ctx.known_fragments, &ctx);
                let mut groups: Vec<(usize, Vec<String>)> = m.iter().map(|(k, fs)| (id(k), fs.iter().map(|f| format!("{}:{}:{}", enc::r_pos(&f.position), enc::r_opt_name(f.alias.as_ref()), id(&f.name))).collect())).collect();
                groups.sort();
                res.push(json!(groups));
            }
        }
        res
    }));
    out.push(json!({"op": "collect", "src": text, "doc": enc::document(&doc), "sets": if all { "all" } else { "operations" },
        "parents": objects.iter().map(|t| { use graphql_tools::ast::TypeDefinitionExtension; json!(id(t.name())) }).collect::<Vec<_>>(),
        "impl": match r { Ok(v) => json!({"outcome": "ok", "results": v}), Err(_) => json!({"outcome": "panic"}) }}));
}
