//! Curated schema pool (SDL text).  Every schema spells out the built-in scalars and
//! @skip/@include, as the crate's own test harness does.
pub const PRELUDE: &str = "
directive @skip(if: Boolean!) on FIELD | FRAGMENT_SPREAD | INLINE_FRAGMENT
directive @include(if: Boolean!) on FIELD | FRAGMENT_SPREAD | INLINE_FRAGMENT
scalar Boolean
scalar Float
scalar Int
scalar ID
scalar String
";

/// The crate's own TEST_SCHEMA (src/validation/test_utils.rs), explicit roots.
pub const TEST_SCHEMA: &str = "
interface Mammal { mother: Mammal father: Mammal }
interface Pet { name(surname: Boolean): String }
interface Canine implements Mammal { name(surname: Boolean): String mother: Canine father: Canine }
enum DogCommand { SIT HEEL DOWN }
type Dog implements Pet & Mammal & Canine {
  name(surname: Boolean): String
  nickname: String
  barkVolume: Int
  barks: Boolean
  doesKnowCommand(dogCommand: DogCommand): Boolean
  isHouseTrained(atOtherHomes: Boolean = true): Boolean
  isAtLocation(x: Int, y: Int): Boolean
  mother: Dog
  father: Dog
}
type Cat implements Pet { name(surname: Boolean): String nickname: String meows: Boolean meowsVolume: Int furColor: FurColor }
union CatOrDog = Cat | Dog
type Human { name(surname: Boolean): String pets: [Pet] relatives: [Human] }
enum FurColor { BROWN BLACK TAN SPOTTED NO_FUR UNKNOWN }
input ComplexInput { requiredField: Boolean! nonNullField: Boolean! = false intField: Int stringField: String booleanField: Boolean stringListField: [String] }
type ComplicatedArgs {
  intArgField(intArg: Int): String
  nonNullIntArgField(nonNullIntArg: Int!): String
  stringArgField(stringArg: String): String
  booleanArgField(booleanArg: Boolean): String
  enumArgField(enumArg: FurColor): String
  floatArgField(floatArg: Float): String
  idArgField(idArg: ID): String
  stringListArgField(stringListArg: [String]): String
  stringListNonNullArgField(stringListNonNullArg: [String!]): String
  complexArgField(complexArg: ComplexInput): String
  multipleReqs(req1: Int!, req2: Int!): String
  nonNullFieldWithDefault(arg: Int! = 0): String
  multipleOpts(opt1: Int = 0, opt2: Int = 0): String
  multipleOptAndReq(req1: Int!, req2: Int!, opt1: Int = 0, opt2: Int = 0): String
}
type QueryRoot { human(id: ID): Human dog: Dog cat: Cat pet: Pet catOrDog: CatOrDog complicatedArgs: ComplicatedArgs }
type SubscriptionRoot { fieldB: String fieldC: Int }
type MutationRoot { fieldB: String }
schema { subscription: SubscriptionRoot mutation: MutationRoot query: QueryRoot }
directive @onField on FIELD
directive @onQuery on QUERY
directive @onMutation on MUTATION
directive @onSubscription on SUBSCRIPTION
directive @onFragmentDefinition on FRAGMENT_DEFINITION
directive @onFragmentSpread on FRAGMENT_SPREAD
directive @onInlineFragment on INLINE_FRAGMENT
directive @testDirective on FIELD | FRAGMENT_DEFINITION
directive @repeatable repeatable on FIELD | FRAGMENT_DEFINITION
";

/// Implicit roots, interface chain, unions, nested inputs with every wrapper shape, custom scalar,
/// directives with arguments, repeatable directives.
pub const RICH: &str = "
scalar Date
enum Color { RED GREEN BLUE }
enum Unit { M KM }
input Inner { x: Int y: Int! = 3 c: Color }
input Mid { inner: Inner inners: [Inner!] req: String! tags: [String] }
input Outer { mid: Mid! mids: [[Mid]] n: Int f: Float id: ID d: Date u: Unit = KM }
interface Node { id: ID! }
interface Named implements Node { id: ID! name(upper: Boolean = false): String }
interface Aged { age(unit: Unit): Int }
type User implements Named & Node & Aged { id: ID! name(upper: Boolean = false): String age(unit: Unit): Int friends(first: Int = 10, after: ID): [User!]! best: User pet: Animal color: Color born: Date posts(filter: Outer): [Post] }
type Bot implements Named & Node { id: ID! name(upper: Boolean = false): String version: Int! owner: User }
type Post implements Node { id: ID! title: String! author: Named tags: [String!] score(w: [Float!]! = [1.0]): Float }
type Cat { name: String lives: Int }
type Dog { name: String! tricks(known: [[String]]): [String] }
union Animal = Cat | Dog
union SearchResult = User | Bot | Post | Cat
type Query {
  node(id: ID!): Node
  named(name: String): Named
  user(id: ID! = \"1\", opts: Outer): User
  users(ids: [ID!]!, colors: [Color] = [RED]): [User]
  search(q: String!, lim: Int = 5, nested: [[Int!]!], inner: Inner = {x: 1}): [SearchResult!]
  animal: Animal
  count(where: Mid, mode: Color = RED, big: [Int]!, m: [[Int]]): Int
  version: String
  now: Date
}
type Mutation { setName(id: ID!, name: String!): User bump(by: Int = 1): Int del(ids: [ID!]): Boolean }
type Subscription { tick(every: Int): Int userChanged(id: ID): User }
directive @a(x: Int, y: String!) on FIELD | QUERY
directive @b repeatable on FIELD | FRAGMENT_SPREAD | INLINE_FRAGMENT | FRAGMENT_DEFINITION
directive @c(flag: Boolean = true, tags: [String!]) on QUERY | MUTATION | SUBSCRIPTION | FRAGMENT_DEFINITION
directive @d on MUTATION | SUBSCRIPTION | FRAGMENT_SPREAD
directive @e(in: Inner!) repeatable on INLINE_FRAGMENT | FIELD
directive @schemaOnly on OBJECT | FIELD_DEFINITION
";

/// Explicit root names that differ from the defaults, plus types called Mutation/Subscription
/// that are *not* roots... no: that is the ambiguous case (see AMBIG); here only renamed roots.
pub const EXPLICIT: &str = "
schema { query: Q mutation: M subscription: S }
interface I1 { a: Int }
interface I2 implements I1 { a: Int b: String }
interface I3 implements I2 & I1 { a: Int b: String c: [Int] }
type A implements I3 & I2 & I1 { a: Int b: String c: [Int] self: A other: B u: AB }
type B implements I1 { a: Int z: Float self: B }
type C { a: String b: String }
union AB = A | B
union BC = B | C
input P { k: Int! l: [Int!]! m: P }
type Q { a: A b: B c: C i1: I1 i2: I2 i3: I3 ab: AB bc: BC f(p: P, q: [P!], r: Int! = 1, s: Int!): Int }
type M { set(p: P!): A }
type S { onA: A onB(k: Int): B }
directive @loc(n: Int!) on FIELD | FRAGMENT_DEFINITION | FRAGMENT_SPREAD | INLINE_FRAGMENT | QUERY | MUTATION | SUBSCRIPTION
directive @once on FIELD
";

/// A schema that defines (almost) none of the names documents use.
pub const NOTHING: &str = "
type Query { zzz: Int }
";

/// Explicit schema block without mutation/subscription entries while types with the default
/// names exist (the case DESIGN 3.1 excludes by hypothesis `RootsUnambiguous`; information only).
pub const AMBIG: &str = "
schema { query: Query }
type Query { a: Int }
type Mutation { m: Int }
type Subscription { s: Int t: Int }
";

/// Interfaces without any implementing object type: alone (Orphan) and implementing an interface that
/// objects do implement (Draft implements Node).  Their sets of possible types are empty.
pub const LONELY: &str = "
interface Node { id: ID }
interface Draft implements Node { id: ID rev: Int }
interface Deep implements Draft & Node { id: ID rev: Int d: Int }
interface Orphan { x: Int }
interface Shared implements Node { id: ID }
type Post implements Shared & Node { id: ID }
type Other { y: Int }
union PO = Post | Other
type Query { n: Node d: Draft dd: Deep o: Orphan s: Shared po: PO }
";

/// Root types named in the schema block while ordinary object types carry the default root names.
pub const DECOY: &str = "
schema { query: Q mutation: BillingMutations subscription: BillingEvents }
type Q { a: Int subscription: Subscription mutation: Mutation query: Query }
type BillingMutations { renew(id: ID!, months: Int = 1): Subscription cancel(id: ID!): Boolean }
type BillingEvents { renewed(id: ID): Subscription expired: Subscription }
type Subscription { id: ID plan: String renew: Int }
type Mutation { id: ID note: String }
type Query { zz: Int }
";

/// Four composite types whose names collide when two are written one after the other: Node+ListItem = NodeList+Item.
pub const CONCAT: &str = "
interface Node { id: ID }
type ListItem implements Node { id: ID  v: Int }
type NodeList { id: ID  items: [ListItem]  n: Node }
type Item { id: ID }
type Query { node: Node  list: NodeList  item: Item  li: ListItem }
";

/// Names that are prefixes, case variants or homonyms of one another and of keywords, built-in types and directives.
pub const NAMES: &str = "
interface Node { id: ID  Node: Int }
interface NodeX implements Node { id: ID  Node: Int  x: Int }
type NodeXY implements NodeX & Node { id: ID  Node: Int  x: Int  y: Int  type: Type  Type: Type }
type Type { name: String  Name: String  names: [String]  node: Node }
enum Color { RED  Red  Color  Type  Int }
input Type2 { Type: Type2  type: Int  Int: Int }
union U = NodeXY | Type
union Single = Type
scalar include
directive @Type(if: Boolean) on FIELD | QUERY
directive @skipX(if: Boolean!) repeatable on FIELD | FRAGMENT_SPREAD | INLINE_FRAGMENT
type Label { text: String }
type Owner { text: Int  id: ID }
type Dog { name: Label  nick: String }
type Do { gname: Owner  g: Int }
type Query { node: Node  Node: Node  query: Query  type(type: Type2, Type: Color, Int: Int = 1): Type  fragment: Int  on: Int  u: U  single: Single  nodes(first: Int): [NodeXY!]  inc: include  dog: Dog  do: Do }
";

pub fn pool() -> Vec<(&'static str, String)> {
    vec![
        ("names", format!("{}{}", PRELUDE, NAMES)),
        ("test", format!("{}{}", TEST_SCHEMA, PRELUDE)),
        ("rich", format!("{}{}", PRELUDE, RICH)),
        ("explicit", format!("{}{}", PRELUDE, EXPLICIT)),
        ("nothing", format!("{}{}", PRELUDE, NOTHING)),
    ]
}

/// tiny schema for the bounded-exhaustive enumerators: object, interface, union, leaf fields,
/// fields under list / non-null wrappers
pub const TINY: &str = "
interface I { a: Int  t: T }
type T implements I { a: Int  t: T  ts: [T!]!  u: U  i: I }
type V { a: String  v: V }
union U = T | V
type Query { a: Int  t: T  ts: [T!]!  u: U  i: I  v: V }
type Subscription { a: Int  t: T }
";

/// directives for every single executable location, for all of them, repeatable or not, one with
/// no executable location at all
pub const DIRS: &str = "
directive @onQuery on QUERY
directive @onMutation on MUTATION
directive @onSubscription on SUBSCRIPTION
directive @onField on FIELD
directive @onFragmentDefinition on FRAGMENT_DEFINITION
directive @onFragmentSpread on FRAGMENT_SPREAD
directive @onInlineFragment on INLINE_FRAGMENT
directive @everywhere on QUERY | MUTATION | SUBSCRIPTION | FIELD | FRAGMENT_DEFINITION | FRAGMENT_SPREAD | INLINE_FRAGMENT
directive @rep repeatable on QUERY | MUTATION | SUBSCRIPTION | FIELD | FRAGMENT_DEFINITION | FRAGMENT_SPREAD | INLINE_FRAGMENT
directive @fq(x: Int) on FIELD | QUERY
directive @typeSystemOnly on OBJECT | FIELD_DEFINITION
type Mutation { a: Int }
";

/// fields with arguments on an object, an interface and the root; a directive with arguments
pub const ARGS: &str = "
interface J { g(i: Int, r: Int!): Int }
type W implements J { g(i: Int, r: Int!): Int  w: W  j: J }
type Query { f(i: Int, r: Int!, d: Int! = 1): Int  w: W  j: J  plain: Int }
directive @dir(x: Int, y: Int!) repeatable on QUERY | FIELD | FRAGMENT_SPREAD | INLINE_FRAGMENT | FRAGMENT_DEFINITION
directive @noargs on FIELD
directive @tsOnly(x: Int, y: Int!) on FIELD_DEFINITION | OBJECT
directive @mixed(y: Int!) on FIELD | FIELD_DEFINITION
";
