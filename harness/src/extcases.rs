//! C18: the public helper queries of ext.rs (and do_types_overlap), called directly and
//! exhaustively per schema; answers are canonical JSON that the driver reproduces from the model.
use crate::{enc, gen, intern::id, rng::Rng, Out};
use graphql_tools::ast::*;
use graphql_tools::static_graphql::{query as q, schema as s};
use graphql_tools::validation::rules::do_types_overlap;
use serde_json::{json, Value as J};
use std::collections::BTreeMap;

fn bits(v: impl Iterator<Item = bool>) -> String { v.map(|b| if b { '1' } else { '0' }).collect() }

pub fn type_refs(names: &[String], depth: usize) -> Vec<q::Type> {
    let mut out: Vec<q::Type> = names.iter().map(|n| q::Type::NamedType(n.clone())).collect();
    let mut frontier = out.clone();
    for _ in 0..depth {
        let mut next = vec![];
        for t in &frontier {
            if !matches!(t, q::Type::NonNullType(_)) { next.push(q::Type::NonNullType(Box::new(t.clone()))); }
            next.push(q::Type::ListType(Box::new(t.clone())));
        }
        out.extend(next.iter().cloned());
        frontier = next;
    }
    out
}

pub fn leaf_values() -> Vec<q::Value> {
    vec![q::Value::Variable("a".into()), q::Value::Variable("b".into()), q::Value::Int(1.into()), q::Value::Int(2.into()),
         q::Value::String("s".into()), q::Value::Null, q::Value::Boolean(true), q::Value::Enum("RED".into()), q::Value::Float(1.5)]
}

pub fn small_values(leaves: &[q::Value]) -> Vec<q::Value> {
    let mut out: Vec<q::Value> = leaves.to_vec();
    out.push(q::Value::List(vec![]));
    for a in leaves { out.push(q::Value::List(vec![a.clone()])); }
    for a in leaves { for b in leaves { out.push(q::Value::List(vec![a.clone(), b.clone()])); } }
    out.push(q::Value::Object(BTreeMap::new()));
    for k in ["x", "y"] { for a in leaves { let mut m = BTreeMap::new(); m.insert(k.to_string(), a.clone()); out.push(q::Value::Object(m)); } }
    for a in leaves { for b in leaves { let mut m = BTreeMap::new(); m.insert("x".to_string(), a.clone()); m.insert("y".to_string(), b.clone()); out.push(q::Value::Object(m)); } }
    out
}

pub fn random_value(rng: &mut Rng, depth: usize) -> q::Value {
    let leaves = leaf_values();
    if depth == 0 || rng.pct(40) { return rng.pick(&leaves).clone(); }
    if rng.pct(50) { q::Value::List((0..rng.below(4)).map(|_| random_value(rng, depth - 1)).collect()) }
    else { let mut m = BTreeMap::new(); for _ in 0..rng.below(4) { m.insert((*rng.pick(&["x", "y", "z"])).to_string(), random_value(rng, depth - 1)); } q::Value::Object(m) }
}

fn kind_name(t: Option<&s::TypeDefinition>) -> J { match t { Some(t) => json!(enc::r_type_def(t)), None => json!("-") } }

fn catch<T>(f: impl FnOnce() -> T) -> Option<T> { std::panic::catch_unwind(std::panic::AssertUnwindSafe(f)).ok() }

pub fn schema_cases(si: &gen::SchemaInfo, thorough: bool, rng: &mut Rng, out: &mut Out) {
    let d = &si.doc;
    let mut names = si.type_names();
    names.push("Absent".into()); names.push("__Absent".into());
    // 1. subtype matrix
    let depth = if thorough { 3 } else { 2 };
    let mut base = names.clone();
    if !thorough && base.len() > 14 { rng.shuffle(&mut base); base.truncate(14); }
    let refs = type_refs(&base, depth);
    let m = bits(refs.iter().flat_map(|a| refs.iter().map(move |b| (a, b))).map(|(a, b)| d.is_subtype(a, b)));
    // reflexivity / transitivity of the implementation's own answers (oracle: the property statement)
    let n = refs.len(); let mb: Vec<bool> = m.chars().map(|c| c == '1').collect();
    let mut law = "ok".to_string();
    for i in 0..n { if !mb[i * n + i] { law = format!("not reflexive at {}", refs[i]); } }
    'outer: for i in 0..n { for j in 0..n { if !mb[i * n + j] { continue; } for k in 0..n { if mb[j * n + k] && !mb[i * n + k] { law = format!("not transitive: {} <= {} <= {}", refs[i], refs[j], refs[k]); break 'outer; } } } }
    out.push(json!({"op": "ext", "fn": "subtype", "key": format!("{}:subtype:{}", si.name, n), "refs": refs.iter().map(enc::ty).collect::<Vec<_>>(), "impl": m, "law": law}));
    // 2. named subtype, possible type
    let ids: Vec<J> = names.iter().map(|n| json!(id(n))).collect();
    let m = bits(names.iter().flat_map(|a| names.iter().map(move |b| (a, b))).map(|(a, b)| d.is_named_subtype(a, b)));
    out.push(json!({"op": "ext", "fn": "namedSubtype", "key": format!("{}:namedSubtype", si.name), "names": ids, "impl": m}));
    let tnames = si.type_names();
    let tids: Vec<J> = tnames.iter().map(|n| json!(id(n))).collect();
    let defs: Vec<&s::TypeDefinition> = tnames.iter().map(|n| d.type_by_name(n).unwrap()).collect();
    let m = bits(defs.iter().flat_map(|a| defs.iter().map(move |b| (a, b))).map(|(a, b)| d.is_possible_type(a, b)));
    out.push(json!({"op": "ext", "fn": "possibleType", "key": format!("{}:possibleType", si.name), "names": tids, "impl": m}));
    // 3. overlap over composite types (both orders) + symmetry of the implementation
    let comp = si.composite_names();
    let cdefs: Vec<&s::TypeDefinition> = comp.iter().map(|n| d.type_by_name(n).unwrap()).collect();
    let m = bits(cdefs.iter().flat_map(|a| cdefs.iter().map(move |b| (a, b))).map(|(a, b)| do_types_overlap(d, a, b)));
    let n = cdefs.len(); let mb: Vec<bool> = m.chars().map(|c| c == '1').collect();
    let mut law = "ok".to_string();
    for i in 0..n { for j in 0..n { if mb[i * n + j] != mb[j * n + i] { law = format!("not symmetric: {} {}", comp[i], comp[j]); } } }
    out.push(json!({"op": "ext", "fn": "overlap", "key": format!("{}:overlap", si.name), "names": comp.iter().map(|n| json!(id(n))).collect::<Vec<_>>(), "impl": m, "law": law}));
    // possible types (sorted ids), has_sub_type / has_concrete_sub_type matrices
    for (n, t) in tnames.iter().zip(defs.iter()) {
        let mut p: Vec<usize> = t.possible_types(d).iter().map(|o| id(&o.name)).collect(); p.sort();
        out.push(json!({"op": "ext", "fn": "possible", "key": format!("{}:possible:{}", si.name, n), "name": id(n), "impl": p}));
    }
    let m = bits(defs.iter().flat_map(|a| defs.iter().map(move |b| (a, b))).map(|(a, b)| a.has_sub_type(b)));
    out.push(json!({"op": "ext", "fn": "hasSubType", "key": format!("{}:hasSubType", si.name), "names": tids, "impl": m}));
    let objs: Vec<&s::ObjectType> = defs.iter().filter_map(|t| match t { s::TypeDefinition::Object(o) => Some(o), _ => None }).collect();
    let m = bits(defs.iter().flat_map(|a| objs.iter().map(move |b| (a, b))).map(|(a, b)| a.has_concrete_sub_type(b)));
    out.push(json!({"op": "ext", "fn": "hasConcreteSubType", "key": format!("{}:hasConcreteSubType", si.name), "names": tids,
        "objects": objs.iter().map(|o| json!(id(&o.name))).collect::<Vec<_>>(), "impl": m}));
    // 4. lookups
    let mut lk = names.clone();
    for dd in si.directives() { lk.push(dd.name.clone()); }
    lk.push("skip".into()); lk.push("nope".into());
    let tm = d.type_map();
    let res: Vec<J> = lk.iter().map(|n| json!([kind_name(d.type_by_name(n)), d.directive_by_name(n).map(|x| id(&x.name)),
        d.object_type_by_name(n).map(|o| id(&o.name)), kind_name(tm.get(n.as_str()).copied())])).collect();
    out.push(json!({"op": "ext", "fn": "lookup", "key": format!("{}:lookup", si.name), "names": lk.iter().map(|n| json!(id(n))).collect::<Vec<_>>(), "impl": res}));
    let qt = catch(|| id(&d.query_type().name));
    out.push(json!({"op": "ext", "fn": "roots", "key": format!("{}:roots", si.name),
        "impl": [match qt { Some(n) => json!(n), None => json!("panic") }, json!(d.mutation_type().map(|t| id(&t.name))), json!(d.subscription_type().map(|t| id(&t.name)))]}));
    // 5. kinds, fields, required
    let res: Vec<J> = defs.iter().map(|t| json!(bits([t.is_leaf_type(), t.is_composite_type(), t.is_input_type(), t.is_object_type(), t.is_union_type(),
        t.is_interface_type(), t.is_enum_type(), t.is_scalar_type(), t.is_abstract_type()].into_iter()))).collect();
    out.push(json!({"op": "ext", "fn": "kinds", "key": format!("{}:kinds", si.name), "names": tids, "impl": res}));
    let fnames: Vec<String> = { let mut v: Vec<String> = defs.iter().flat_map(|t| match t {
        s::TypeDefinition::Object(o) => o.fields.iter().map(|f| f.name.clone()).collect::<Vec<_>>(),
        s::TypeDefinition::Interface(o) => o.fields.iter().map(|f| f.name.clone()).collect(),
        s::TypeDefinition::InputObject(o) => o.fields.iter().map(|f| f.name.clone()).collect(), _ => vec![] }).collect(); v.push("nope".into()); v.sort(); v.dedup(); v };
    let res: Vec<J> = defs.iter().map(|t| J::Array(fnames.iter().map(|f| json!([t.field_by_name(f).map(|x| enc::r_ty(&x.field_type)), t.input_field_by_name(f).map(|x| enc::r_ty(&x.value_type))])).collect())).collect();
    out.push(json!({"op": "ext", "fn": "fields", "key": format!("{}:fields", si.name), "names": tids, "fields": fnames.iter().map(|n| json!(id(n))).collect::<Vec<_>>(), "impl": res}));
    let mut req = String::new();
    for t in &defs {
        match t {
            s::TypeDefinition::Object(o) => for f in &o.fields { for a in &f.arguments { req.push(if a.is_required() { '1' } else { '0' }); } },
            s::TypeDefinition::Interface(o) => for f in &o.fields { for a in &f.arguments { req.push(if a.is_required() { '1' } else { '0' }); } },
            s::TypeDefinition::InputObject(o) => for a in &o.fields { req.push(if a.is_required() { '1' } else { '0' }); },
            _ => {}
        }
    }
    out.push(json!({"op": "ext", "fn": "required", "key": format!("{}:required", si.name), "impl": req}));
    let refs2 = type_refs(&names[..std::cmp::min(4, names.len())].to_vec(), 3);
    let res: Vec<J> = refs2.iter().map(|t| json!([id(t.inner_type()), enc::r_ty(t.of_type()), bits([t.is_non_null(), t.is_list_type(), t.is_named_type()].into_iter())])).collect();
    out.push(json!({"op": "ext", "fn": "tyHelpers", "key": format!("{}:tyHelpers", si.name), "refs": refs2.iter().map(enc::ty).collect::<Vec<_>>(), "impl": res}));
}

pub fn value_cases(thorough: bool, rng: &mut Rng, out: &mut Out) {
    let leaves = leaf_values();
    let mut vals = small_values(&leaves[..if thorough { 9 } else { 6 }]);
    for _ in 0..(if thorough { 250 } else { 60 }) { vals.push(random_value(rng, 3)); }
    // floats that differ in the last place, alone and nested (equality of values is exact, not up to a tolerance)
    for (a, b) in [(0.1f64, 0.10000000000000002f64), (0.3, 0.30000000000000004), (1.0, 1.0000000000000002), (100.5, 100.50000000000001)] {
        for f in [a, b] {
            vals.push(q::Value::Float(f));
            vals.push(q::Value::List(vec![q::Value::Float(f), q::Value::Int(1.into())]));
            let mut m = BTreeMap::new(); m.insert("x".to_string(), q::Value::List(vec![q::Value::Float(f)])); vals.push(q::Value::Object(m));
        }
    }
    let m = bits(vals.iter().flat_map(|a| vals.iter().map(move |b| (a, b))).map(|(a, b)| a.compare(b)));
    // oracle: structural equality of the real AST values (graphql-parser's derived PartialEq)
    let n = vals.len(); let mb: Vec<bool> = m.chars().map(|c| c == '1').collect();
    let mut law = "ok".to_string();
    for i in 0..n { for j in 0..n { if mb[i * n + j] != (vals[i] == vals[j]) { law = format!("compare({}, {}) = {} but tree equality is {}", vals[i], vals[j], mb[i * n + j], vals[i] == vals[j]); } } }
    out.push(json!({"op": "ext", "fn": "compare", "key": format!("compare:{}", n), "values": vals.iter().map(enc::value).collect::<Vec<_>>(), "impl": m, "law": law}));
    let res: Vec<J> = vals.iter().map(|v| J::Array(v.variables_in_use().iter().map(|n| json!(id(n))).collect())).collect();
    out.push(json!({"op": "ext", "fn": "varsInUse", "key": "varsInUse", "values": vals.iter().map(enc::value).collect::<Vec<_>>(), "impl": res}));
}

/// get_fragment_spreads / get_recursive_fragment_spreads on every top-level selection set
pub fn spreads_case(text: &str, out: &mut Out) {
    let doc = match gen::parse_doc(text) { Some(d) => d, None => return };
    let mut res = vec![];
    for def in &doc.definitions {
        let ss = match def { q::Definition::Fragment(f) => &f.selection_set, q::Definition::Operation(o) => o.selection_set() };
        res.push(json!([ss.get_fragment_spreads().iter().map(|s| id(&s.fragment_name)).collect::<Vec<_>>(),
                        ss.get_recursive_fragment_spreads().iter().map(|s| id(&s.fragment_name)).collect::<Vec<_>>()]));
    }
    out.push(json!({"op": "ext", "fn": "spreads", "key": text, "src": text, "doc": enc::document(&doc), "impl": res}));
}
