mod collectcases;
mod enc;
mod enumgen;
mod extcases;
mod gen;
mod intern;
mod introspect;
mod props;
mod purity;
mod recorder;
mod rewrite;
mod rng;
mod schemas;
mod transform;
mod valcases;

use serde_json::json;
use std::io::Write;

pub fn env_seed() -> u64 { std::env::var("VERIF_SEED").ok().and_then(|s| s.parse().ok()).unwrap_or(0) }

/// Buffered case file: the string table goes first, so it is written at the end.
pub struct Out { pub lines: Vec<String> }
impl Out {
    pub fn schema(&mut self, si: &gen::SchemaInfo) {
        self.lines.push(json!({"op": "schema", "name": si.name, "sdl": si.text, "ast": enc::schema(&si.doc)}).to_string());
    }
    pub fn push(&mut self, v: serde_json::Value) { self.lines.push(v.to_string()); }
    pub fn write(&self, path: &str) {
        let mut f = std::io::BufWriter::new(std::fs::File::create(path).unwrap());
        writeln!(f, "{}", json!({"op": "strings", "tab": intern::table()})).unwrap();
        for l in &self.lines { writeln!(f, "{}", l).unwrap(); }
    }
}

fn main() {
    let args: Vec<String> = std::env::args().collect();
    std::panic::set_hook(Box::new(|i| { if std::env::var("VERIF_DEBUG").is_ok() { eprintln!("panic: {}", i); } }));
    let cmd = args.get(1).map(|s| s.as_str()).unwrap_or("");
    let mut out = Out { lines: vec![] };
    match cmd {
        // gen <kind> <tier> <out> <corpusdir>
        "gen" => {
            let a = args.clone();
            let h = std::thread::Builder::new().stack_size(512 << 20).spawn(move || {
                let mut out = Out { lines: vec![] };
                let thorough = a[3] == "thorough";
                props::generate(&a[2], thorough, env_seed(), &a[5], &mut out);
                out.write(&a[4]);
            }).unwrap();
            if h.join().is_err() { std::process::exit(3); }
        }
        // replay <kind> <replay.json> <out>
        "replay" => {
            let rep: serde_json::Value = serde_json::from_str(&std::fs::read_to_string(&args[3]).unwrap()).unwrap();
            let sdl = rep["schema_sdl"].as_str().expect("replay file has schema_sdl");
            let si = gen::SchemaInfo::new(rep["schema_name"].as_str().unwrap_or("replay"), sdl);
            out.schema(&si);
            props::one_case(&args[2], &si, &rep["input"], &mut out);
            out.write(&args[4]);
        }
        "observe-batch" => { purity::observe_batch(&args[2], &args[3]); return; }
        // validate-one <schema-file> <doc-file> full|nomerge   (child process of observe_isolated)
        "validate-one" => {
            let st = std::fs::read_to_string(&args[2]).unwrap();
            let dt = std::fs::read_to_string(&args[3]).unwrap();
            let schema = graphql_tools::parser::parse_schema::<String>(&st).unwrap().into_static();
            let doc = graphql_tools::parser::parse_query::<String>(&dt).unwrap().into_static();
            println!("{}", valcases::observe(&schema, &doc, args[4] == "nomerge"));
            return;
        }
        _ => { eprintln!("usage: gqlv gen KIND TIER OUT CORPUS | gqlv replay KIND FILE OUT"); std::process::exit(2); }
    }
}
