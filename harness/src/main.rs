use graphql_tools::parser::{parse_query, parse_schema};
use graphql_tools::validation::rules::default_rules_validation_plan;
use graphql_tools::validation::validate::validate;

fn main() {
    let args: Vec<String> = std::env::args().collect();
    if args.len() >= 4 && args[1] == "probe" {
        let s = std::fs::read_to_string(&args[2]).unwrap();
        let q = std::fs::read_to_string(&args[3]).unwrap();
        let schema = parse_schema::<String>(&s).unwrap().into_static();
        let doc = parse_query::<String>(&q).unwrap().into_static();
        let plan = default_rules_validation_plan();
        let errs = validate(&schema, &doc, &plan);
        for e in errs {
            println!("{} | {} | {:?}", e.error_code, e.message, e.locations);
        }
    }
}
