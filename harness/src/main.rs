mod enc;
mod gen;
mod intern;
mod recorder;
mod rng;
mod schemas;

use graphql_tools::ast::{visit_document, OperationVisitorContext};
use serde_json::json;
use std::io::Write;

fn env_seed() -> u64 { std::env::var("VERIF_SEED").ok().and_then(|s| s.parse().ok()).unwrap_or(0) }

/// run the real visitor with the recorder; None if it panicked
fn real_trace(schema: &graphql_tools::static_graphql::schema::Document, doc: &graphql_tools::static_graphql::query::Document) -> Option<(Vec<String>, String)> {
    let r = std::panic::catch_unwind(std::panic::AssertUnwindSafe(|| {
        let mut ctx = OperationVisitorContext::new(doc, schema);
        let mut rec = recorder::Recorder::default();
        visit_document(&mut rec, doc, &mut ctx, &mut ());
        let fin = recorder::snap(&ctx);
        (rec.lines, fin)
    }));
    r.ok()
}

fn main() {
    let args: Vec<String> = std::env::args().collect();
    std::panic::set_hook(Box::new(|_| {}));
    let cmd = args.get(1).map(|s| s.as_str()).unwrap_or("");
    match cmd {
        "gen-trace" => {
            let n: usize = args[2].parse().unwrap();
            let out = &args[3];
            let mut lines: Vec<String> = vec![];
            let mut rng = rng::Rng::new(env_seed());
            for (name, text) in schemas::pool() {
                let si = gen::SchemaInfo::new(name, &text);
                lines.push(json!({"op": "schema", "name": name, "ast": enc::schema(&si.doc)}).to_string());
                for i in 0..n {
                    let noise = [0, 5, 25][i % 3];
                    let mut g = gen::DocGen::new(&si, rng.fork(), noise, 3);
                    let text = g.document();
                    let doc = match gen::parse_doc(&text) { Some(d) => d, None => { eprintln!("unparseable: {}", text); continue; } };
                    let (impl_lines, fin) = match real_trace(&si.doc, &doc) { Some(x) => (Some(x.0), Some(x.1)), None => (None, None) };
                    lines.push(json!({"op": "trace", "src": text, "doc": enc::document(&doc),
                        "impl": {"outcome": if impl_lines.is_some() {"ok"} else {"panic"}, "lines": impl_lines, "final": fin}}).to_string());
                }
            }
            let mut f = std::io::BufWriter::new(std::fs::File::create(out).unwrap());
            writeln!(f, "{}", json!({"op": "strings", "tab": intern::table()})).unwrap();
            for l in lines { writeln!(f, "{}", l).unwrap(); }
        }
        _ => { eprintln!("usage: gqlv gen-trace N OUT"); std::process::exit(2); }
    }
}
