//! Bounded-exhaustive enumerators over tiny alphabets (no randomness).

/// all selection-set bodies (without the outer braces... with them) built from at most `budget`
/// nodes: fields `names` (each with 0..=2 children), inline fragments on `tcs` ("" = untyped) with
/// 1..=2 children, spreads of `frags`; depth <= max_depth.
pub fn selsets(names: &[&str], tcs: &[&str], frags: &[&str], budget: usize, max_depth: usize) -> Vec<String> {
    // lists of 1..=2 selections using exactly/at most `budget` nodes
    fn sel_lists(names: &[&str], tcs: &[&str], frags: &[&str], budget: usize, depth: usize, maxw: usize) -> Vec<(String, usize)> {
        let mut out = vec![];
        if budget == 0 || depth == 0 { return out; }
        let singles = one(names, tcs, frags, budget, depth);
        for (s, used) in &singles { out.push((s.clone(), *used)); }
        if maxw >= 2 {
            for (s1, u1) in &singles {
                if *u1 >= budget { continue; }
                for (s2, u2) in one(names, tcs, frags, budget - u1, depth) { out.push((format!("{} {}", s1, s2), u1 + u2)); }
            }
        }
        out
    }
    fn one(names: &[&str], tcs: &[&str], frags: &[&str], budget: usize, depth: usize) -> Vec<(String, usize)> {
        let mut out = vec![];
        if budget == 0 { return out; }
        for n in names {
            out.push((n.to_string(), 1));
            for (body, used) in sel_lists(names, tcs, frags, budget - 1, depth - 1, 2) { out.push((format!("{} {{ {} }}", n, body), 1 + used)); }
        }
        for f in frags { out.push((format!("...{}", f), 1)); }
        for tc in tcs {
            for (body, used) in sel_lists(names, tcs, frags, budget - 1, depth - 1, 2) {
                out.push((if tc.is_empty() { format!("... {{ {} }}", body) } else { format!("... on {} {{ {} }}", tc, body) }, 1 + used));
            }
        }
        out
    }
    sel_lists(names, tcs, frags, budget, max_depth, 2).into_iter().map(|(s, _)| format!("{{ {} }}", s)).collect()
}
