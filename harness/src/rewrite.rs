//! Meaning-preserving rewrites of documents and schemas (C14), on the parser's AST; the rewritten
//! document is printed and re-parsed so that positions are real again.
use graphql_tools::static_graphql::query as q;
use graphql_tools::static_graphql::schema as s;
use crate::rng::Rng;
use std::collections::{BTreeMap, HashMap, HashSet};

fn each_selset(doc: &mut q::Document, f: &mut dyn FnMut(&mut q::SelectionSet)) {
    fn go(ss: &mut q::SelectionSet, f: &mut dyn FnMut(&mut q::SelectionSet)) {
        for x in ss.items.iter_mut() {
            match x { q::Selection::Field(fl) => go(&mut fl.selection_set, f), q::Selection::InlineFragment(i) => go(&mut i.selection_set, f), _ => {} }
        }
        f(ss);
    }
    for d in doc.definitions.iter_mut() {
        match d {
            q::Definition::Fragment(fr) => go(&mut fr.selection_set, f),
            q::Definition::Operation(o) => match o {
                q::OperationDefinition::SelectionSet(ss) => go(ss, f),
                q::OperationDefinition::Query(x) => go(&mut x.selection_set, f),
                q::OperationDefinition::Mutation(x) => go(&mut x.selection_set, f),
                q::OperationDefinition::Subscription(x) => go(&mut x.selection_set, f),
            },
        }
    }
}

fn each_directives(doc: &mut q::Document, f: &mut dyn FnMut(&mut Vec<q::Directive>)) {
    each_selset(doc, &mut |ss| for x in ss.items.iter_mut() {
        match x { q::Selection::Field(fl) => f(&mut fl.directives), q::Selection::InlineFragment(i) => f(&mut i.directives), q::Selection::FragmentSpread(sp) => f(&mut sp.directives) }
    });
    for d in doc.definitions.iter_mut() {
        match d {
            q::Definition::Fragment(fr) => f(&mut fr.directives),
            q::Definition::Operation(o) => match o {
                q::OperationDefinition::SelectionSet(_) => {}
                q::OperationDefinition::Query(x) => f(&mut x.directives),
                q::OperationDefinition::Mutation(x) => f(&mut x.directives),
                q::OperationDefinition::Subscription(x) => f(&mut x.directives),
            },
        }
    }
}

fn each_arglist(doc: &mut q::Document, f: &mut dyn FnMut(&mut Vec<(String, q::Value)>)) {
    each_selset(doc, &mut |ss| for x in ss.items.iter_mut() { if let q::Selection::Field(fl) = x { f(&mut fl.arguments) } });
    each_directives(doc, &mut |ds| for d in ds.iter_mut() { f(&mut d.arguments) });
}

fn each_vardefs(doc: &mut q::Document, f: &mut dyn FnMut(&mut Vec<q::VariableDefinition>)) {
    for d in doc.definitions.iter_mut() {
        if let q::Definition::Operation(o) = d {
            match o {
                q::OperationDefinition::SelectionSet(_) => {}
                q::OperationDefinition::Query(x) => f(&mut x.variable_definitions),
                q::OperationDefinition::Mutation(x) => f(&mut x.variable_definitions),
                q::OperationDefinition::Subscription(x) => f(&mut x.variable_definitions),
            }
        }
    }
}

fn rename_vars_in_value(v: &mut q::Value, m: &dyn Fn(&str) -> String) {
    match v {
        q::Value::Variable(n) => { *n = m(n); }
        q::Value::List(l) => for x in l.iter_mut() { rename_vars_in_value(x, m) },
        q::Value::Object(o) => for (_, x) in o.iter_mut() { rename_vars_in_value(x, m) },
        _ => {}
    }
}

/// the document with every position zeroed (for comparing ASTs)
pub fn strip_positions(doc: &q::Document) -> q::Document {
    let z = graphql_tools::parser::Pos { line: 0, column: 0 };
    let mut d = doc.clone();
    each_selset(&mut d, &mut |ss| {
        ss.span = (z, z);
        for x in ss.items.iter_mut() {
            match x { q::Selection::Field(f) => f.position = z, q::Selection::FragmentSpread(f) => f.position = z, q::Selection::InlineFragment(f) => f.position = z }
        }
    });
    each_directives(&mut d, &mut |ds| for x in ds.iter_mut() { x.position = z; });
    each_vardefs(&mut d, &mut |vs| for v in vs.iter_mut() { v.position = z; });
    for def in d.definitions.iter_mut() {
        match def {
            q::Definition::Fragment(fr) => fr.position = z,
            q::Definition::Operation(o) => match o {
                q::OperationDefinition::Query(x) => x.position = z,
                q::OperationDefinition::Mutation(x) => x.position = z,
                q::OperationDefinition::Subscription(x) => x.position = z,
                _ => {}
            },
        }
    }
    d
}

/// print and re-parse; `None` when the external printer does not preserve the AST
pub fn reparse(doc: &q::Document) -> Option<q::Document> {
    let r = crate::gen::parse_doc(&format!("{}", doc))?;
    if strip_positions(&r) == strip_positions(doc) { Some(r) } else { None }
}

pub fn perm_definitions(doc: &q::Document, rng: &mut Rng) -> q::Document { let mut d = doc.clone(); rng.shuffle(&mut d.definitions); d }
pub fn reverse_definitions(doc: &q::Document) -> q::Document { let mut d = doc.clone(); d.definitions.reverse(); d }
pub fn perm_selections(doc: &q::Document, rng: &mut Rng) -> q::Document { let mut d = doc.clone(); let mut r = rng.fork(); each_selset(&mut d, &mut |ss| r.shuffle(&mut ss.items)); d }
pub fn reverse_selections(doc: &q::Document) -> q::Document { let mut d = doc.clone(); each_selset(&mut d, &mut |ss| ss.items.reverse()); d }
pub fn perm_arguments(doc: &q::Document, rng: &mut Rng) -> q::Document { let mut d = doc.clone(); let mut r = rng.fork(); each_arglist(&mut d, &mut |a| r.shuffle(a)); d }
pub fn reverse_arguments(doc: &q::Document) -> q::Document { let mut d = doc.clone(); each_arglist(&mut d, &mut |a| a.reverse()); d }
pub fn reverse_variables(doc: &q::Document) -> q::Document { let mut d = doc.clone(); each_vardefs(&mut d, &mut |a| a.reverse()); d }
pub fn perm_variables(doc: &q::Document, rng: &mut Rng) -> q::Document { let mut d = doc.clone(); let mut r = rng.fork(); each_vardefs(&mut d, &mut |a| r.shuffle(a)); d }

/// consistent renaming of operations, fragments, variables and aliases to fresh names
pub fn rename_all(doc: &q::Document) -> q::Document {
    let mut d = doc.clone();
    let f = |p: &str, n: &str| format!("{}{}_r", p, n);
    for def in d.definitions.iter_mut() {
        match def {
            q::Definition::Fragment(fr) => { fr.name = f("Fr", &fr.name); }
            q::Definition::Operation(o) => match o {
                q::OperationDefinition::Query(x) => { x.name = x.name.as_ref().map(|n| f("Op", n)); }
                q::OperationDefinition::Mutation(x) => { x.name = x.name.as_ref().map(|n| f("Op", n)); }
                q::OperationDefinition::Subscription(x) => { x.name = x.name.as_ref().map(|n| f("Op", n)); }
                _ => {}
            },
        }
    }
    // response keys must stay equal / different exactly as before: an alias that coincides with the name of a field
    // used without alias somewhere in the document is left alone
    let mut unaliased: HashSet<String> = HashSet::new();
    each_selset(&mut d, &mut |ss| for x in ss.items.iter() { if let q::Selection::Field(fl) = x { if fl.alias.is_none() { unaliased.insert(fl.name.clone()); } } });
    each_selset(&mut d, &mut |ss| for x in ss.items.iter_mut() {
        match x {
            q::Selection::FragmentSpread(sp) => { sp.fragment_name = f("Fr", &sp.fragment_name); }
            q::Selection::Field(fl) => { if let Some(a) = &fl.alias { if !unaliased.contains(a) { fl.alias = Some(f("al", a)); } } }
            _ => {}
        }
    });
    each_vardefs(&mut d, &mut |vs| for v in vs.iter_mut() { v.name = f("v", &v.name); if let Some(dv) = v.default_value.as_mut() { rename_vars_in_value(dv, &|n| f("v", n)); } });
    each_arglist(&mut d, &mut |args| for (_, v) in args.iter_mut() { rename_vars_in_value(v, &|n| f("v", n)); });
    d
}

/// every selection wrapped in an untyped inline fragment
pub fn wrap_untyped(doc: &q::Document) -> q::Document {
    let mut d = doc.clone();
    each_selset(&mut d, &mut |ss| {
        let items = std::mem::take(&mut ss.items);
        ss.items = items.into_iter().map(|x| {
            let pos = match &x { q::Selection::Field(f) => f.position, q::Selection::FragmentSpread(f) => f.position, q::Selection::InlineFragment(f) => f.position };
            q::Selection::InlineFragment(q::InlineFragment { position: pos, type_condition: None, directives: vec![],
                selection_set: q::SelectionSet { span: ss.span, items: vec![x] } })
        }).collect();
    });
    d
}

fn spreads_of(ss: &q::SelectionSet, out: &mut Vec<String>) {
    for x in &ss.items {
        match x { q::Selection::Field(f) => spreads_of(&f.selection_set, out), q::Selection::InlineFragment(i) => spreads_of(&i.selection_set, out), q::Selection::FragmentSpread(sp) => out.push(sp.fragment_name.clone()) }
    }
}

/// fragments that can be inlined: defined once, no directives on the definition or on any of its
/// spreads, not reaching themselves
pub fn inlinable(doc: &q::Document) -> Vec<String> {
    let mut defs: HashMap<String, Vec<&q::FragmentDefinition>> = HashMap::new();
    for d in &doc.definitions { if let q::Definition::Fragment(f) = d { defs.entry(f.name.clone()).or_default().push(f); } }
    let edges: HashMap<String, Vec<String>> = defs.iter().map(|(n, fs)| { let mut o = vec![]; for f in fs { spreads_of(&f.selection_set, &mut o); } (n.clone(), o) }).collect();
    fn reaches(from: &str, target: &str, edges: &HashMap<String, Vec<String>>, seen: &mut HashSet<String>) -> bool {
        if !seen.insert(from.to_string()) { return false; }
        edges.get(from).map(|es| es.iter().any(|e| e == target || reaches(e, target, edges, seen))).unwrap_or(false)
    }
    let mut spread_dirs: HashSet<String> = HashSet::new();
    let mut dd = doc.clone();
    each_selset(&mut dd, &mut |ss| for x in &ss.items { if let q::Selection::FragmentSpread(sp) = x { if !sp.directives.is_empty() { spread_dirs.insert(sp.fragment_name.clone()); } } });
    let mut out: Vec<String> = defs.iter().filter(|(n, fs)| fs.len() == 1 && fs[0].directives.is_empty() && !spread_dirs.contains(*n) && !reaches(n, n, &edges, &mut HashSet::new())).map(|(n, _)| n.clone()).collect();
    out.sort();
    out
}

/// every spread of `name` replaced by the equivalent typed inline fragment; the definition removed
pub fn inline_fragment(doc: &q::Document, name: &str) -> q::Document {
    let def = doc.definitions.iter().find_map(|d| match d { q::Definition::Fragment(f) if f.name == name => Some(f.clone()), _ => None }).unwrap();
    let mut d = doc.clone();
    d.definitions.retain(|x| !matches!(x, q::Definition::Fragment(f) if f.name == name));
    // used at all?  an unused fragment must stay unused-reported: keep the definition then
    let mut used = false;
    each_selset(&mut d, &mut |ss| for x in ss.items.iter_mut() {
        let repl = match x { q::Selection::FragmentSpread(sp) if sp.fragment_name == name => Some(sp.position), _ => None };
        if let Some(pos) = repl {
            used = true;
            *x = q::Selection::InlineFragment(q::InlineFragment { position: pos, type_condition: Some(def.type_condition.clone()), directives: vec![], selection_set: def.selection_set.clone() });
        }
    });
    if used { d } else { doc.clone() }
}

// ---------------------------------------------------------------- schema permutations
pub fn perm_schema(sd: &s::Document, rng: &mut Rng) -> s::Document {
    let mut d = sd.clone();
    for def in d.definitions.iter_mut() {
        if let s::Definition::TypeDefinition(t) = def {
            match t {
                s::TypeDefinition::Object(o) => { rng.shuffle(&mut o.fields); rng.shuffle(&mut o.implements_interfaces); for f in o.fields.iter_mut() { rng.shuffle(&mut f.arguments); } }
                s::TypeDefinition::Interface(o) => { rng.shuffle(&mut o.fields); rng.shuffle(&mut o.implements_interfaces); for f in o.fields.iter_mut() { rng.shuffle(&mut f.arguments); } }
                s::TypeDefinition::Union(u) => rng.shuffle(&mut u.types),
                s::TypeDefinition::Enum(e) => rng.shuffle(&mut e.values),
                s::TypeDefinition::InputObject(i) => rng.shuffle(&mut i.fields),
                _ => {}
            }
        }
        if let s::Definition::DirectiveDefinition(dd) = def { rng.shuffle(&mut dd.arguments); rng.shuffle(&mut dd.locations); }
    }
    rng.shuffle(&mut d.definitions);
    d
}

#[allow(dead_code)]
pub fn unused(_: BTreeMap<String, String>) {}
