//! Per-kind case generation: every case line carries the input (wire AST + source text) and the
//! observation made on the real implementation (`impl`).
use crate::{enc, gen, recorder, rng::Rng, schemas, Out};
use graphql_tools::ast::{visit_document, OperationVisitorContext};
use graphql_tools::static_graphql::{query as q, schema as s};
use serde_json::{json, Value as J};

/// run the real visitor with the recorder; None if it panicked
pub fn real_trace(schema: &s::Document, doc: &q::Document) -> Option<(Vec<String>, String)> {
    std::panic::catch_unwind(std::panic::AssertUnwindSafe(|| {
        let mut ctx = OperationVisitorContext::new(doc, schema);
        let mut rec = recorder::Recorder::default();
        visit_document(&mut rec, doc, &mut ctx, &mut ());
        let fin = recorder::snap(&ctx);
        (rec.lines, fin)
    })).ok()
}

pub fn tmpdir() -> String {
    let base = std::env::var("VERIF_TMP").unwrap_or_else(|_| "/verif/.build/run/tmp".to_string());
    format!("{}/{}", base, std::process::id())
}

pub fn pool() -> Vec<gen::SchemaInfo> {
    schemas::pool().into_iter().map(|(n, t)| gen::SchemaInfo::new(n, &t)).collect()
}

/// corpus documents: files <corpus>/<schema-name>/*.graphql
pub fn corpus_docs(corpus: &str, schema_name: &str) -> Vec<String> {
    let mut v = vec![];
    if let Ok(rd) = std::fs::read_dir(format!("{}/{}", corpus, schema_name)) {
        let mut paths: Vec<_> = rd.filter_map(|e| e.ok()).map(|e| e.path()).filter(|p| p.extension().map(|x| x == "graphql").unwrap_or(false)).collect();
        paths.sort();
        for p in paths { if let Ok(t) = std::fs::read_to_string(&p) { v.push(t); } }
    }
    v
}

pub fn random_docs(si: &gen::SchemaInfo, rng: &mut Rng, n: usize, max_depth: usize) -> Vec<String> {
    (0..n).map(|i| {
        let noise = [0, 0, 5, 25][i % 4];
        let mut g = gen::DocGen::new(si, rng.fork(), noise, max_depth);
        g.document()
    }).collect()
}

fn trace_case(si: &gen::SchemaInfo, text: &str, out: &mut Out) {
    let doc = match gen::parse_doc(text) { Some(d) => d, None => return };
    let r = real_trace(&si.doc, &doc);
    let (lines, fin, outcome) = match r { Some(x) => (Some(x.0), Some(x.1), "ok"), None => (None, None, "panic") };
    out.push(json!({"op": "trace", "src": text, "doc": enc::document(&doc), "impl": {"outcome": outcome, "lines": lines, "final": fin}}));
}

// ---------------------------------------------------------------- schema visitor (C15)
struct SRec;
use graphql_tools::ast::SchemaVisitor;
use crate::intern::id;
impl SchemaVisitor<Vec<String>> for SRec {
    fn enter_document(&self, _: &s::Document, c: &mut Vec<String>) { c.push("+doc".into()) }
    fn leave_document(&self, _: &s::Document, c: &mut Vec<String>) { c.push("-doc".into()) }
    fn enter_schema_definition(&self, n: &s::SchemaDefinition, c: &mut Vec<String>) { c.push(format!("+{}", r_sdef(n))) }
    fn leave_schema_definition(&self, n: &s::SchemaDefinition, c: &mut Vec<String>) { c.push(format!("-{}", r_sdef(n))) }
    fn enter_directive_definition(&self, n: &s::DirectiveDefinition, c: &mut Vec<String>) { c.push(format!("+directive:{}", id(&n.name))) }
    fn leave_directive_definition(&self, n: &s::DirectiveDefinition, c: &mut Vec<String>) { c.push(format!("-directive:{}", id(&n.name))) }
    fn enter_type_definition(&self, n: &s::TypeDefinition, c: &mut Vec<String>) { c.push(format!("+type:{}", enc::r_type_def(n))) }
    fn leave_type_definition(&self, n: &s::TypeDefinition, c: &mut Vec<String>) { c.push(format!("-type:{}", enc::r_type_def(n))) }
    fn enter_interface_type(&self, n: &s::InterfaceType, c: &mut Vec<String>) { c.push(format!("+interface:{}", id(&n.name))) }
    fn leave_interface_type(&self, n: &s::InterfaceType, c: &mut Vec<String>) { c.push(format!("-interface:{}", id(&n.name))) }
    fn enter_interface_type_field(&self, n: &s::Field, t: &s::InterfaceType, c: &mut Vec<String>) { c.push(format!("+ifield:{}@{}", id(&n.name), id(&t.name))) }
    fn leave_interface_type_field(&self, n: &s::Field, t: &s::InterfaceType, c: &mut Vec<String>) { c.push(format!("-ifield:{}@{}", id(&n.name), id(&t.name))) }
    fn enter_object_type(&self, n: &s::ObjectType, c: &mut Vec<String>) { c.push(format!("+object:{}", id(&n.name))) }
    fn leave_object_type(&self, n: &s::ObjectType, c: &mut Vec<String>) { c.push(format!("-object:{}", id(&n.name))) }
    fn enter_object_type_field(&self, n: &s::Field, t: &s::ObjectType, c: &mut Vec<String>) { c.push(format!("+ofield:{}@{}", id(&n.name), id(&t.name))) }
    fn leave_object_type_field(&self, n: &s::Field, t: &s::ObjectType, c: &mut Vec<String>) { c.push(format!("-ofield:{}@{}", id(&n.name), id(&t.name))) }
    fn enter_input_object_type(&self, n: &s::InputObjectType, c: &mut Vec<String>) { c.push(format!("+input:{}", id(&n.name))) }
    fn leave_input_object_type(&self, n: &s::InputObjectType, c: &mut Vec<String>) { c.push(format!("-input:{}", id(&n.name))) }
    fn enter_input_object_type_field(&self, n: &s::InputValue, t: &s::InputObjectType, c: &mut Vec<String>) { c.push(format!("+infield:{}@{}", id(&n.name), id(&t.name))) }
    fn leave_input_object_type_field(&self, n: &s::InputValue, t: &s::InputObjectType, c: &mut Vec<String>) { c.push(format!("-infield:{}@{}", id(&n.name), id(&t.name))) }
    fn enter_union_type(&self, n: &s::UnionType, c: &mut Vec<String>) { c.push(format!("+union:{}", id(&n.name))) }
    fn leave_union_type(&self, n: &s::UnionType, c: &mut Vec<String>) { c.push(format!("-union:{}", id(&n.name))) }
    fn enter_scalar_type(&self, n: &s::ScalarType, c: &mut Vec<String>) { c.push(format!("+scalar:{}", id(&n.name))) }
    fn leave_scalar_type(&self, n: &s::ScalarType, c: &mut Vec<String>) { c.push(format!("-scalar:{}", id(&n.name))) }
    fn enter_enum_type(&self, n: &s::EnumType, c: &mut Vec<String>) { c.push(format!("+enum:{}", id(&n.name))) }
    fn leave_enum_type(&self, n: &s::EnumType, c: &mut Vec<String>) { c.push(format!("-enum:{}", id(&n.name))) }
    fn enter_enum_value(&self, n: &s::EnumValue, t: &s::EnumType, c: &mut Vec<String>) { c.push(format!("+evalue:{}@{}", id(&n.name), id(&t.name))) }
    fn leave_enum_value(&self, n: &s::EnumValue, t: &s::EnumType, c: &mut Vec<String>) { c.push(format!("-evalue:{}@{}", id(&n.name), id(&t.name))) }
}
fn r_sdef(n: &s::SchemaDefinition) -> String {
    format!("schema:{},{},{}", enc::r_opt_name(n.query.as_ref()), enc::r_opt_name(n.mutation.as_ref()), enc::r_opt_name(n.subscription.as_ref()))
}

fn svisit_case(name: &str, sdl: &str, out: &mut Out) {
    let si = gen::SchemaInfo::new(name, sdl);
    out.schema(&si);
    let r = std::panic::catch_unwind(std::panic::AssertUnwindSafe(|| {
        let mut lines = vec![];
        SRec.visit_schema_document(&si.doc, &mut lines);
        lines
    })).ok();
    out.push(json!({"op": "svisit", "src": sdl, "key": sdl, "impl": {"outcome": if r.is_some() {"ok"} else {"panic"}, "lines": r}}));
}

pub fn one_case(kind: &str, si: &gen::SchemaInfo, input: &J, out: &mut Out) {
    match kind {
        "trace" => trace_case(si, input.as_str().unwrap(), out),
        "svisit" => svisit_case(&si.name, &si.text, out),
        "collect" => crate::collectcases::collect_case(si, input.as_str().unwrap(), out),
        "introspect" => { let mut rng = Rng::new(crate::env_seed()); crate::introspect::schema_cases(si, &mut rng, false, out); }
        "transform" => {
            for h in crate::transform::HOOKS.iter() { id(&format!("R_{}", h)); }
            let mut rng = Rng::new(crate::env_seed());
            let none: [Option<crate::transform::Probe>; 11] = Default::default();
            crate::transform::transform_case(input.as_str().unwrap(), &none, out);
            for _ in 0..20 { let h = crate::transform::random_hooks(&mut rng); crate::transform::transform_case(input.as_str().unwrap(), &h, out); }
        }
        "validate" | "purity" => crate::valcases::validate_case(si, input.as_str().unwrap(), &tmpdir(), out),
        "c03" => crate::valcases::termination_case(si, input.as_str().unwrap(), &tmpdir(), "replay", out),
        "c01" | "c02" | "c14" => crate::valcases::accept_case(si, input.as_str().unwrap(), &tmpdir(), json!({"family": "replay"}), out),
        "c05" => crate::valcases::merge_case(si, input.as_str().unwrap(), &tmpdir(), json!({"family": "replay", "group": 0}), out),
        "c04" | "c10" | "c09" | "c11" | "c06" | "c07" | "c08" => crate::valcases::rules_case(si, input.as_str().unwrap(), &crate::valcases::RULES, &tmpdir(), out),
        "ext" => {
            let mut rng = Rng::new(crate::env_seed());
            crate::extcases::schema_cases(si, false, &mut rng, out);
            crate::extcases::value_cases(false, &mut rng, out);
            if let Some(t) = input.as_str() { crate::extcases::spreads_case(t, out); }
        }
        _ => panic!("unknown kind {}", kind),
    }
}

fn merge_sdl() -> String { format!("{}\ninput In {{ a: Int  b: Int  fl: Float }}\ninterface Pet {{ name: String  nick: String  owner: Human }}\ninterface Feline {{ name: String  nick: String  owner: Human }}\ntype Dog implements Pet {{ name: String  nick: String  barks: Boolean  owner: Human  n: Int  l: [Int]  m: Int!  boss: Human!  pack: [Human!] }}\ntype Cat implements Pet & Feline {{ name: String  nick: String  meows: Boolean  owner: Human  n: String  l: [Int!]  m: Int  boss: Human  pack: [Human] }}\nunion CatOrDog = Cat | Dog\ntype Human {{ name: String  nick: String  f(x: Int, y: [Int], o: In, fl: Float): Int  list: [Int]  nn: Int!  self: Human  pet: Pet  dog: Dog  cd: CatOrDog }}\ntype Query {{ human: Human  pet: Pet  dog: Dog  cat: Cat  cd: CatOrDog }}\n", schemas::PRELUDE) }

fn frags_sdl() -> String { format!("{}\nscalar Custom\nenum E {{ X }}\ninput In {{ x: Int }}\ninterface I {{ a: Int  t: T }}\ninterface J implements I {{ a: Int  t: T }}\ninterface K {{ a: Int }}\ninterface L {{ a: Int }}\ninterface M implements I {{ a: Int  t: T }}\ntype T implements I & J & K {{ a: Int  t: T  i: I  j: J  u: U  k: K }}\ntype V {{ a: Int }}\ntype W implements I {{ a: Int  t: T }}\ntype X implements K & L {{ a: Int }}\nunion U = T | V\nunion U2 = V | W\ntype Query {{ a: Int  t: T  i: I  j: J  u: U  u2: U2  v: V  w: W  k: K  l: L  x: X  m: M }}\n", schemas::PRELUDE) }

pub fn generate(kind: &str, thorough: bool, seed: u64, corpus: &str, out: &mut Out) {
    let mut rng = Rng::new(seed);
    let scale = if thorough { 12 } else { 1 };
    match kind {
        "trace" => {
            for si in pool() {
                out.schema(&si);
                for t in corpus_docs(corpus, &si.name) { trace_case(&si, &t, out); }
                for t in random_docs(&si, &mut rng, 150 * scale, 4) { trace_case(&si, &t, out); }
            }
            for i in 0..(8 * scale) {
                let si = gen::SchemaInfo::new(&format!("random{}", i), &gen::random_schema(&mut rng));
                out.schema(&si);
                for t in random_docs(&si, &mut rng, 40, 4) { trace_case(&si, &t, out); }
            }
            // root types named by the schema block while other object types carry the default root names
            {
                let si = gen::SchemaInfo::new("decoy-roots", &format!("{}{}", schemas::PRELUDE, schemas::DECOY));
                out.schema(&si);
                for t in ["mutation { renew(id: \"1\", months: 2) { id plan } cancel(id: \"2\") }", "subscription { renewed(id: \"1\") { id renew } }", "subscription S { expired { plan } }",
                          "{ a subscription { id } mutation { note } query { zz } }", "mutation { id note }", "subscription { id plan }", "mutation M { ...F } fragment F on BillingMutations { cancel(id: 1) }",
                          "subscription { ...G } fragment G on Subscription { id }", "mutation { ... on Mutation { note } ... on BillingMutations { cancel(id: \"3\") } }"] {
                    trace_case(&si, t, out);
                }
            }
            // a schema block that names only some roots while object types `Mutation` / `Subscription` exist (and variants where
            // `Subscription` is not an object type, or is absent): the type in scope below each kind of operation
            for (n, sdl) in [("ambig", schemas::AMBIG.to_string()),
                             ("ambig-iface", "schema { query: Query }\ntype Query { a: Int }\ninterface Subscription { s: Int }\ntype Impl implements Subscription { s: Int }\nunion Mutation = Query | Impl\n".to_string()),
                             ("ambig-none", "schema { query: Query mutation: Query }\ntype Query { a: Int  s: Int }\n".to_string()),
                             ("ambig-q", "schema { subscription: S }\ntype S { s: Int  t: Int }\ntype Query { a: Int }\ntype Mutation { m: Int }\ntype Subscription { s: Int  zz: Int }\n".to_string())] {
                let si = gen::SchemaInfo::new(n, &format!("{}{}", schemas::PRELUDE, sdl));
                out.schema(&si);
                for t in ["subscription { s }", "subscription S { s t zz }", "subscription { s { x } ... on Subscription { t } ...F } fragment F on Subscription { s }", "mutation { m }", "mutation { m zz ... on Mutation { m } }",
                          "{ a }", "query { a zz }", "subscription { __typename s @skip(if: true) }", "subscription { ... { s zz } }", "mutation M { ... { m } }"] {
                    trace_case(&si, t, out);
                }
            }
            // literals nested deeper than any fixed bound one might pick (the parser allows about fifty brackets)
            {
                let si = gen::SchemaInfo::new("deep-values", &format!("{}{}", schemas::PRELUDE, "input Rec { n: Rec  l: [Rec]  v: Int }\nscalar Any\ntype Query { f(r: Rec, a: Any, ll: [[[[Int]]]]): Int }"));
                out.schema(&si);
                for depth in [8usize, 20, 31, 32, 33, 34, 40] {
                    let list = format!("{}1{}", "[".repeat(depth), "]".repeat(depth));
                    let obj = format!("{}{{v: 1}}{}", "{n: ".repeat(depth), "}".repeat(depth));
                    let mixed = format!("{}[{{v: $v}}]{}", "{l: [{n: ".repeat(depth / 3), "}]}".repeat(depth / 3));
                    for t in [format!("{{ f(a: {}) }}", list), format!("{{ f(ll: {}) }}", list), format!("{{ f(r: {}) }}", obj), format!("query ($v: Int) {{ f(r: {}) }}", mixed),
                              format!("query ($x: Any = {}) {{ f(a: $x) }}", list), format!("{{ f @skip(if: {}) }}", list)] {
                        trace_case(&si, &t, out);
                    }
                }
            }
            // object and list literals written directly at positions whose expected type wraps an input object in 0..3 list levels
            // (input coercion of a single value to a list): the expected types of the members must not depend on the wrappers
            {
                let si = gen::SchemaInfo::new("wrapped-inputs", &format!("{}{}", schemas::PRELUDE,
                    "input Point { x: Int!  n: Point  l: [Point!]  ll: [[Point]] }\nscalar JSON\ndirective @at(p: [[Point!]], s: Point) on FIELD\ntype Query { grid(s: Point, r: [Point!]!, p: [[Point!]], q: [[[Point]]]!, j: JSON, jl: [JSON]): Int }"));
                out.schema(&si);
                let lits = ["{x: 1}", "{x: null}", "{x: $v}", "[{x: 1}]", "[[{x: 1, n: {x: null}}]]", "{x: 1, l: {x: 2}}", "{x: 1, l: [{x: $v}]}", "{x: 1, ll: {x: null}}", "{x: 1, ll: [{x: 2}, [{x: 3}]]}",
                            "[[[{x: 1}]]]", "[{x: 1}, [{x: 2}]]", "null", "$v", "[1, {x: 1}]", "{x: 1, n: {x: 1, n: {x: null}}}", "{zz: {x: 1}}"];
                for arg in ["s", "r", "p", "q", "j", "jl"] { for lit in lits.iter() {
                    trace_case(&si, &format!("query ($v: Int) {{ grid({}: {}) }}", arg, lit), out);
                } }
                for lit in lits.iter() {
                    trace_case(&si, &format!("query ($v: Int) {{ grid @at(p: {}, s: {}) }}", lit, lit), out);
                    trace_case(&si, &format!("query ($v: Int, $w: [[Point!]] = {}) {{ grid(p: $w) }}", lit.replace("$v", "1")), out);
                }
            }
        }
        "svisit" => {
            for (n, t) in schemas::pool() { svisit_case(n, &t, out); }
            svisit_case("ambig", &format!("{}{}", schemas::PRELUDE, schemas::AMBIG), out);
            svisit_case("with-extension", &format!("{}{}", schemas::PRELUDE, "type Query { a: Int } extend type Query { b: Int } enum E { X }"), out);
            svisit_case("tiny", "scalar Int", out);
            // type definitions whose names start with `__` (the introspection types as printed from an introspection result, and others): visited like any other
            svisit_case("intro-names", "scalar Int scalar String scalar Boolean\ntype Query { a: Int  s: __Schema  t(name: String!): __Type }\ntype __Schema { types: [__Type!]!  queryType: __Type!  directives: [__Directive!]! }\n\
type __Type { kind: __TypeKind!  name: String  fields(includeDeprecated: Boolean = false): [__Field!]  ofType: __Type }\nenum __TypeKind { SCALAR OBJECT INTERFACE UNION ENUM INPUT_OBJECT LIST NON_NULL }\n\
type __Field { name: String!  args: [__InputValue!]!  type: __Type! }\ntype __InputValue { name: String!  type: __Type!  defaultValue: String }\ntype __EnumValue { name: String!  isDeprecated: Boolean! }\n\
type __Directive { name: String!  locations: [__DirectiveLocation!]!  args: [__InputValue!]! }\nenum __DirectiveLocation { QUERY FIELD }\n\
scalar __Custom\ninput __In { x: Int  y: __In }\ninterface __Node { id: Int }\nunion __U = __Field | __Directive\ntype __typename { a: Int }\ntype Schema { a: Int }\ntype Type { a: Int }", out);
            for n in ["__Schema", "__Type", "__TypeKind", "__Field", "__InputValue", "__EnumValue", "__Directive", "__DirectiveLocation", "__X", "_Type", "Type__"] {
                svisit_case(&format!("intro-{}", n), &format!("scalar Int\ntype Query {{ a: Int }}\ntype {} {{ f(x: Int): Int }}\nenum E {{ X }}", n), out);
                svisit_case(&format!("intro-enum-{}", n), &format!("scalar Int\nenum {} {{ A B }}\ntype Query {{ a: Int }}", n), out);
            }
            for i in 0..(60 * scale) { let t = gen::random_schema(&mut rng); svisit_case(&format!("random{}", i), &t, out); }
        }
        "ext" => {
            let mut sis = pool();
            sis.push(gen::SchemaInfo::new("ambig", &format!("{}{}", schemas::PRELUDE, schemas::AMBIG)));
            sis.push(gen::SchemaInfo::new("noquery", &format!("{}{}", schemas::PRELUDE, "type Other { a: Int } type Mutation { m: Int }")));
            // interfaces nobody implements, alone and below an implemented interface: their possible types are empty, they overlap nothing
            sis.push(gen::SchemaInfo::new("lonely", &format!("{}{}", schemas::PRELUDE, schemas::LONELY)));
            for i in 0..(6 * scale) { sis.push(gen::SchemaInfo::new(&format!("random{}", i), &gen::random_schema(&mut rng))); }
            for si in &sis {
                out.schema(si);
                crate::extcases::schema_cases(si, thorough, &mut rng, out);
                for t in random_docs(si, &mut rng, 10, 4) { crate::extcases::spreads_case(&t, out); }
            }
            crate::extcases::value_cases(thorough, &mut rng, out);
        }
        "validate" => {
            let tmp = tmpdir();
            for si in pool() {
                out.schema(&si);
                for t in corpus_docs(corpus, &si.name) { crate::valcases::validate_case(&si, &t, &tmp, out); }
                for t in random_docs(&si, &mut rng, 120 * scale, 4) {
                    let plans = crate::valcases::random_plans(&mut rng, 2);
                    crate::valcases::validate_case_plans(&si, &t, &tmp, &plans, out);
                }
            }
            for i in 0..(6 * scale) {
                let si = gen::SchemaInfo::new(&format!("random{}", i), &gen::random_schema(&mut rng));
                out.schema(&si);
                for t in random_docs(&si, &mut rng, 40, 4) { crate::valcases::validate_case(&si, &t, &tmp, out); }
            }
            // many errors of two rules in one document (the result is the in-order union whatever its size)
            {
                let si = gen::SchemaInfo::new("nothing-many", &format!("{}{}", schemas::PRELUDE, schemas::NOTHING));
                out.schema(&si);
                for n in [30usize, 70, 120] {
                    let fields: String = (0..n).map(|i| format!(" u{}", i)).collect();
                    let spreads: String = (0..n).map(|i| format!(" ...N{}", i)).collect();
                    crate::valcases::validate_case(&si, &format!("{{{}{} }}", fields, spreads), &tmp, out);
                    crate::valcases::validate_case(&si, &format!("{{ zzz{} }} query B {{ zzz(a: 1, b: 2){} }}", spreads, fields), &tmp, out);
                }
            }
            // documents of several thousand selections (machine-generated queries) with errors of many rules at the very end: every
            // rule of the plan sees every selection, however many selections the rules before it have walked
            {
                let si = gen::SchemaInfo::new("wide", &format!("{}{}", schemas::PRELUDE, "directive @on(a: Int) on FIELD\ninput In { x: Int! }\ntype T { a: Int  t: T }\ntype Query { a: Int  f(x: Int!, i: In): Int  t: T }"));
                out.schema(&si);
                let sizes: &[usize] = if thorough { &[1200, 4400, 9000, 21000] } else { &[4400] };
                for &n in sizes {
                    let fields: String = (0..n).map(|i| format!(" k{}: a", i)).collect();
                    let tail = "zz f(x: \"s\", y: 1) g: f k0: f(x: 1) a @nope a @on(a: $u) t t { a { a } } ...Nope ... on In { a } f(x: 1, i: {x: null, y: 2}) f(x: 1, x: 2) a @on @on";
                    crate::valcases::validate_case(&si, &format!("query Q($v: Int, $v: In) {{{} {} }} fragment Unused on T {{ a }}", fields, tail), &tmp, out);
                    // the same below a field and inside a fragment
                    crate::valcases::validate_case(&si, &format!("{{ t {{ t {{{} zz }} }} ...F }} fragment F on Query {{ t {{ t {{ t {{ a zz }} }} }} {} }}", (0..n / 2).map(|i| format!(" k{}: a", i)).collect::<String>(), tail), &tmp, out);
                }
            }
            // documents where one rule's subject is another rule's lookup: fragments that are unused AND spread (by other
            // unused fragments, by themselves, at impossible positions), unknown and duplicated fragments and types next to uses of them
            let si = gen::SchemaInfo::new("frags", &frags_sdl());
            out.schema(&si);
            let frag_bodies = ["a", "a ...G", "t { ...G }", "...F", "a ... on V { a }", "...Nope", "t { t { ...F } }"];
            let tcs = ["T", "V", "I", "Query", "E", "Nope"];
            let ops = ["{ a }", "{ t { ...F } }", "{ t { ...G } }", "{ v { ...F } }", "{ t { ...F ...G } } query B { a }", "{ t { ...F } } { a }"];
            // one fragment name defined twice with different type conditions / bodies: the rules that look fragments up by name all see
            // the same one of the two, whichever rules ran before them in the plan
            {
                let defs = [("T", "a"), ("V", "a"), ("T", "...F"), ("T", "...G"), ("T", "t { ...F }"), ("Nope", "a"), ("I", "a ... on V { a }")];
                for (i, (t1, b1)) in defs.iter().enumerate() { for (j, (t2, b2)) in defs.iter().enumerate() {
                    if i == j { continue; }
                    let t = format!("{{ t {{ ...F }} }} fragment F on {} {{ {} }} fragment F on {} {{ {} }} fragment G on T {{ a }}", t1, b1, t2, b2);
                    let plans = crate::valcases::random_plans(&mut rng, 2);
                    crate::valcases::validate_case_plans(&si, &t, &tmp, &plans, out);
                } }
            }
            let mut k = 0usize;
            for op in ops.iter() { for fb in frag_bodies.iter() { for gb in frag_bodies.iter() { for (i, ft) in tcs.iter().enumerate() {
                k += 1;
                if !thorough && k % 4 != 0 { continue; }
                let gt = tcs[(i + k) % tcs.len()];
                let dup = if k % 7 == 0 { format!(" fragment F on {} {{ a }}", ft) } else { String::new() };
                let t = format!("{} fragment F on {} {{ {} }} fragment G on {} {{ {} }}{}", op, ft, fb, gt, gb, dup);
                let plans = crate::valcases::random_plans(&mut rng, 2);
                crate::valcases::validate_case_plans(&si, &t, &tmp, &plans, out);
            } } } }
            // a schema that declares no directive at all (not even @skip/@include): what one rule does not know, no other rule may learn from it
            let si = gen::SchemaInfo::new("nodirs", "scalar Int\nscalar Boolean\ntype Query { a: Int  b(x: Int!): Int  q: Query }\n");
            out.schema(&si);
            let uses = ["@skip(if: true)", "@skip(if: true) @skip(if: false)", "@include", "@include(if: true, unless: 1)", "@skip @include(if: 1)", "@deprecated", "@specifiedBy(url: 1) @specifiedBy",
                        "@mine @mine", "@skip(if: $v)"];
            let plans13: Vec<Vec<&'static str>> = vec![
                vec!["KnownDirectives", "UniqueDirectivesPerLocation"], vec!["UniqueDirectivesPerLocation", "KnownDirectives"],
                vec!["KnownDirectives", "ProvidedRequiredArguments"], vec!["ProvidedRequiredArguments", "KnownDirectives"],
                vec!["KnownDirectives", "KnownArgumentNames", "ValuesOfCorrectType", "VariablesInAllowedPosition"],
                vec!["VariablesInAllowedPosition", "ValuesOfCorrectType", "KnownArgumentNames", "KnownDirectives", "UniqueDirectivesPerLocation", "ProvidedRequiredArguments"],
            ];
            for u in uses.iter() {
                for tpl in ["{ a {U} }", "query Q {U} { q { a } }", "{ q { ... {U} { a } ...F } } fragment F on Query {U} { b(x: 1) {U} }"] {
                    let body = tpl.replace("{U}", u);
                    let t = if body.contains("$v") { if body.starts_with("query Q") { body.replacen("query Q", "query Q($v: Boolean)", 1) } else { format!("query ($v: Boolean) {}", body) } } else { body };
                    crate::valcases::validate_case_plans(&si, &t, &tmp, &plans13, out);
                }
            }
        }
        "purity" => {
            let tmp = tmpdir();
            let fork = std::env::var("VERIF_FORK_EXE").ok();
            let mut sis = pool();
            for i in 0..(3 * scale) { sis.push(gen::SchemaInfo::new(&format!("random{}", i), &gen::random_schema(&mut rng))); }
            // large schemas built one after the other in one place (a cache keyed by where a schema lives, or by how many definitions
            // it has, must not carry answers from one schema to the next)
            for round in 0..4usize {
                let mut sdl = String::from(schemas::PRELUDE);
                for i in 0..70usize { sdl.push_str(&format!("type T{} {{ a: Int  next: T{} }}\n", i, (i + 1) % 70)); }
                sdl.push_str(if round % 2 == 0 { "type Article { a: Int }\ntype Query { t: T0  x: Article }\n" } else { "type Post { a: Int }\ntype Query { t: T0  x: Post }\n" });
                let si = gen::SchemaInfo::new(&format!("large{}", round), &sdl);
                out.schema(&si);
                let texts: Vec<String> = ["{ t { a next { a } } x { a } }", "{ x { ...F } } fragment F on Post { a }", "{ x { ...F } } fragment F on Article { a }", "{ x { ... on Post { a } ... on Article { a } } }",
                                          "query ($v: Post) { t { a } }", "{ t { ... on T69 { a } ... on T70 { a } } }"].iter().map(|t| t.to_string()).collect();
                crate::purity::batch(&si, &texts, &tmp, fork.as_deref(), out);
            }
            for si in &sis {
                out.schema(si);
                let mut texts = corpus_docs(corpus, &si.name);
                texts.extend(random_docs(si, &mut rng, 60 * scale, 4));
                // layout variants: the same document laid out differently (prints identically, every position differs), next to the
                // original in the batch - a result remembered under a key that ignores layout would carry the other text's locations
                let relayout = |t: &str| -> String { t.replace("{ ", "{\n    ").replace(" }", "\n  }").replace(", ", ",\n      ") };
                texts.push("{ k: __typename k: __schema { queryType { name } } }".to_string());
                texts.push("query Q($u: Int) { k: __typename ... { k: __type(name: \"Q\") { name } } }".to_string());
                let n0 = texts.len();
                let mut with_variants = vec![];
                for (i, t) in texts.iter().enumerate() {
                    with_variants.push(t.clone());
                    if i % 4 == 0 || i + 2 >= n0 { let v = relayout(t); if v != *t { with_variants.push(v); } }
                }
                let texts = with_variants;
                crate::purity::batch(si, &texts, &tmp, fork.as_deref(), out);
            }
        }
        "c04" => {
            let tmp = tmpdir();
            let rules = ["FieldsOnCorrectType", "LeafFieldSelections"];
            let si = gen::SchemaInfo::new("tiny", &format!("{}{}", schemas::PRELUDE, schemas::TINY));
            out.schema(&si);
            let budget = if thorough { 4 } else { 3 };
            let bodies = crate::enumgen::selsets(&["a", "t", "u", "zz", "__typename", "__schema"], &["", "T", "I", "U", "Int", "Zed"], &["F"], budget, 3);
            for (i, b) in bodies.iter().enumerate() {
                let text = match i % 3 { 0 => format!("{} fragment F on T {{ a zz }}", b), 1 => format!("subscription {} fragment F on I {{ t }}", b), _ => format!("query Q {} fragment F on U {{ __typename a }}", b) };
                crate::valcases::rules_case(&si, &text, &rules, &tmp, out);
            }
            // two fields whose type name + field name spell the same string (Dog.name, Do.gname) and have different types
            {
                let si = gen::SchemaInfo::new("names", &format!("{}{}", schemas::PRELUDE, schemas::NAMES));
                out.schema(&si);
                for t in ["{ dog { name { text } } do { gname { text } } }", "{ do { gname { text } } dog { name { text } } }", "{ dog { name } do { gname } }", "{ do { gname } dog { name } }",
                          "{ dog { name { text id } } do { gname { text id } } }", "{ do { gname { id } g } dog { name { id } nick } }", "query A { dog { name { text } } } query B { do { gname { id } } }",
                          "{ dog { ...D } do { ...O } } fragment D on Dog { name { text } } fragment O on Do { gname { text id } }"] {
                    crate::valcases::rules_case(&si, t, &rules, &tmp, out);
                }
            }
            {
                let si = gen::SchemaInfo::new("decoy-roots", &format!("{}{}", schemas::PRELUDE, schemas::DECOY));
                out.schema(&si);
                for t in ["mutation { renew(id: \"1\") { id plan } cancel(id: \"2\") }", "mutation { id note }", "subscription { renewed { id renew } }", "subscription { id plan }",
                          "mutation { renew(id: 1) } subscription S { expired { nope } }", "{ a zz subscription { id } }", "subscription { __typename }", "mutation { ... on BillingMutations { cancel(id: 1) note } }"] {
                    crate::valcases::rules_case(&si, t, &rules, &tmp, out);
                }
            }
            for si in pool() {
                out.schema(&si);
                for t in corpus_docs(corpus, &si.name) { crate::valcases::rules_case(&si, &t, &rules, &tmp, out); }
                for t in random_docs(&si, &mut rng, 150 * scale, 5) { crate::valcases::rules_case(&si, &t, &rules, &tmp, out); }
            }
            for i in 0..(6 * scale) {
                let si = gen::SchemaInfo::new(&format!("random{}", i), &gen::random_schema(&mut rng));
                out.schema(&si);
                for t in random_docs(&si, &mut rng, 50, 5) { crate::valcases::rules_case(&si, &t, &rules, &tmp, out); }
            }
        }
        "c10" => {
            let tmp = tmpdir();
            let rules = ["KnownDirectives", "UniqueDirectivesPerLocation"];
            let si = gen::SchemaInfo::new("dirs", &format!("{}{}{}", schemas::PRELUDE, schemas::TINY, schemas::DIRS));
            out.schema(&si);
            // ten directive slots, one per kind of owner, some nested inside other owners
            let template = |sl: &[String; 10]| format!(
                "query Q{} {{ t{} {{ t{} {{ a }} ...F{} ... on T{} {{ a{} }} ...{} {{ a }} }} }} fragment F on T{} {{ a }} mutation M{} {{ a }} subscription S{} {{ a }}",
                sl[0], sl[1], sl[2], sl[3], sl[4], sl[5], sl[6], sl[7], sl[8], sl[9]);
            let dirs = ["onQuery", "onMutation", "onSubscription", "onField", "onFragmentDefinition", "onFragmentSpread", "onInlineFragment",
                        "everywhere", "rep", "fq", "typeSystemOnly", "skip", "unknownDirective"];
            let mut fills: Vec<String> = vec![];
            for d in dirs.iter() { for m in 1..=3 { fills.push((0..m).map(|_| format!(" @{}", d)).collect::<String>()); } }
            for d in dirs.iter().take(10) { for e in ["rep", "everywhere", "unknownDirective"] { fills.push(format!(" @{} @{} @{}", d, e, d)); } }
            // a schema that declares no directive: the built-in names are as unknown as any other
            {
                let si0 = gen::SchemaInfo::new("no-directives", &format!("scalar Boolean\nscalar Float\nscalar Int\nscalar ID\nscalar String\n{}", schemas::TINY));
                out.schema(&si0);
                for d in ["skip(if: true)", "include(if: false)", "deprecated", "specifiedBy(url: \"u\")", "nope", "Skip(if: true)"] {
                    for t in [format!("{{ a @{} }}", d), format!("{{ a @{} @{} }}", d, d), format!("query Q @{} {{ t {{ ...F @{} ... @{} @{} {{ a }} }} }} fragment F on T @{} {{ a }}", d, d, d, d, d),
                              format!("{{ t {{ a @{} }} t {{ a @{} }} }}", d, d)] {
                        crate::valcases::rules_case(&si0, &t, &rules, &tmp, out);
                    }
                }
                out.schema(&si);
            }
            let empty: [String; 10] = Default::default();
            for i in 0..10 { for f in &fills { let mut sl = empty.clone(); sl[i] = f.clone(); crate::valcases::rules_case(&si, &template(&sl), &rules, &tmp, out); } }
            // two slots at once (an owner nested in / following another directive-bearing owner)
            let some: Vec<&String> = fills.iter().step_by(if thorough { 1 } else { 5 }).collect();
            for i in 0..10 { for j in (i + 1)..10 { for (k, f) in some.iter().enumerate() {
                let g = some[(k * 7 + i + j) % some.len()];
                let mut sl = empty.clone(); sl[i] = (*f).clone(); sl[j] = g.clone();
                crate::valcases::rules_case(&si, &template(&sl), &rules, &tmp, out);
            } } }
            for si in pool() {
                out.schema(&si);
                for t in corpus_docs(corpus, &si.name) { crate::valcases::rules_case(&si, &t, &rules, &tmp, out); }
                for t in random_docs(&si, &mut rng, 100 * scale, 5) { crate::valcases::rules_case(&si, &t, &rules, &tmp, out); }
            }
            for i in 0..(8 * scale) {
                let si = gen::SchemaInfo::new(&format!("random{}", i), &gen::random_schema(&mut rng));
                out.schema(&si);
                for t in random_docs(&si, &mut rng, 50, 5) { crate::valcases::rules_case(&si, &t, &rules, &tmp, out); }
            }
        }
        "c14" => {
            let tmp = tmpdir();
            let mut group = 0usize;
            let mut sis = pool();
            for i in 0..(3 * scale) { sis.push(gen::SchemaInfo::new(&format!("random{}", i), &gen::random_schema(&mut rng))); }
            sis.push(gen::SchemaInfo::new("merge-order", &format!("{}\ntype Human {{ name: String  nn: Int!  self: Human }}\ntype Query {{ human: Human }}\n", schemas::PRELUDE)));
            sis.push(gen::SchemaInfo::new("no-subscription-root", &format!("{}\ntype Query {{ a: Int }}\ntype Mutation {{ m: Int }}\n", schemas::PRELUDE)));
            sis.push(gen::SchemaInfo::new("merge-abstract", &merge_sdl()));
            sis.push(gen::SchemaInfo::new("dup-names", &format!("{}\ntype Query {{ a: Int  f(x: Int!, y: Int, s: String): Int  t: T  u: U }}\ntype T {{ a: Int  t: T }}\ntype V {{ a: Int }}\nunion U = T | V\n", schemas::PRELUDE)));
            for si in &sis {
                let mut docs: Vec<String> = corpus_docs(corpus, &si.name);
                if si.name == "dup-names" {
                    // two definitions of one name in one scope (F18): a uniqueness rule reports whatever the order; name-keyed
                    // first-match lookups make other rules' reports depend on which of the two comes first
                    docs.clear();
                    for t in ["query ($v: Int, $v: Int!) { f(x: $v) }", "query ($v: Int = 1, $v: Int) { f(x: $v) }", "query ($v: Int!, $v: String) { f(x: $v) }",
                              "query ($v: Int!, $v: Int!) { f(x: $v) }", "query ($v: Int, $w: Int!) { f(x: $w, y: $v) }",
                              "{ t { ...F } } fragment F on T { a } fragment F on V { a }", "{ t { ...F } } fragment F on T { a } fragment F on T { t { ...F } }",
                              "query ($v: Int) { ...F } fragment F on Query { f(x: 1, y: $v) } fragment F on Query { f(x: $v) }",
                              "query { ...F } fragment F on Query { a } fragment F on Query { f(x: $v) }",
                              "query ($v: Int) { ...F } fragment F on Query { a } fragment F on Query { f(x: 1, y: $v) }",
                              "{ ...F } fragment F on Query { a } fragment F on Query { a }",
                              "query Q { a } query Q { zz }", "query Q { a } query Q { f(x: 1) }", "{ f(x: 1, x: \"s\") }", "{ f(x: 1, s: \"s\", s: 2) }"] { docs.push(t.to_string()); }
                }
                if si.name == "dup-names" {
                    // a chain of more than a hundred fragments closing back into its own middle: a cycle in every order of the definitions
                    for (n, back) in [(101usize, 1usize), (110, 60)] {
                        let mut t = String::from("query { ...F0 }");
                        for j in 0..n { t.push_str(&format!(" fragment F{} on Query {{ {} }}", j, if j + 1 < n { format!("...F{}", j + 1) } else { format!("...F{}", back) })); }
                        docs.push(t);
                    }
                }
                if si.name == "no-subscription-root" {
                    // F19: the subscription-root `__typename` report of fields-on-correct-type is the only error
                    docs.clear();
                    for t in ["subscription { __typename }", "subscription S { __typename k: __typename }", "subscription { ... { __typename } }", "subscription { ...F } fragment F on Query { __typename }",
                              "subscription { a }", "mutation { __typename }", "{ a ... { __typename } }"] { docs.push(t.to_string()); }
                }
                if si.name == "merge-abstract" {
                    // same-key fields under mutually exclusive parents (mostly valid): wrapping, inlining and permuting must not change the verdict
                    docs.clear();
                    let dv = ["k: boss { name }", "k: pack { name }", "k: m", "k: name", "k: nick", "k: n", "k: barks", "k: owner { name }", "k: owner { name: nick }", "k: owner { k: self { name } }"];
                    let cv = ["k: boss { name }", "k: pack { name }", "k: m", "k: name", "k: nick", "k: n", "k: meows", "k: owner { name }", "k: owner { name: nick }", "k: owner { name: nn }", "k: owner { k: self { name: nick } }"];
                    let mut n = 0usize;
                    for a in dv.iter() { for b in cv.iter() {
                        n += 1;
                        if !thorough && n % 2 == 0 { continue; }
                        docs.push(match n % 3 {
                            0 => format!("{{ pet {{ ... on Dog {{ {} }} ... on Cat {{ {} }} }} }}", a, b),
                            1 => format!("{{ cd {{ ...D ...C }} }} fragment D on Dog {{ {} }} fragment C on Cat {{ {} }}", a, b),
                            _ => format!("{{ human {{ pet {{ ... on Dog {{ {} }} }} pet {{ ...C }} }} }} fragment C on Cat {{ {} }}", a, b),
                        });
                    } }
                }
                if si.name == "merge-abstract" {
                    // three same-key fields of which only two conflict, in every order: the conflicting pair is not always adjacent to the first
                    let tri = ["... on Dog { x: name }", "... on Cat { x: name }", "... on Cat { x: nick }"];
                    for o in [[0, 1, 2], [0, 2, 1], [1, 0, 2], [1, 2, 0], [2, 0, 1], [2, 1, 0]] { docs.push(format!("{{ pet {{ {} {} {} }} }}", tri[o[0]], tri[o[1]], tri[o[2]])); }
                }
                if si.name == "merge-abstract" {
                    // twin fields carrying the same two to four arguments, in the same and in different orders (all mergeable): permuting
                    // the arguments of either twin changes nothing
                    for (x, y) in [("f(x: 1, y: [2])", "f(x: 1, y: [2])"), ("f(x: 1, y: [2])", "f(y: [2], x: 1)"), ("f(x: 1, y: [2], fl: 1.5)", "f(fl: 1.5, x: 1, y: [2])"), ("f(x: 1, y: [2], fl: 1.5)", "f(y: [2], fl: 1.5, x: 1)"),
                                   ("f(x: $v, o: {a: 1, b: 2}, y: [], fl: 0.5)", "f(fl: 0.5, y: [], o: {a: 1, b: 2}, x: $v)"), ("f(x: 1, y: [2])", "f(y: [2], x: 2)")] {
                        docs.push(format!("query ($v: Int) {{ human {{ k: {} k: {} f(x: $v) }} }}", x, y));
                        docs.push(format!("query ($v: Int) {{ human {{ self {{ k: {} }} ...F f(x: $v) }} }} fragment F on Human {{ self {{ k: {} }} }}", x, y));
                        docs.push(format!("query ($v: Int) {{ pet {{ owner {{ k: {} }} ... on Dog {{ owner {{ k: {} }} }} owner {{ f(x: $v) }} }} }}", x, y));
                    }
                }
                if si.name == "merge-order" {
                    docs.clear();
                    let tri = ["self { nn }", "self { x: name }", "self { x: nn }"];
                    for o in [[0, 1, 2], [0, 2, 1], [1, 0, 2], [1, 2, 0], [2, 0, 1], [2, 1, 0]] { docs.push(format!("{{ human {{ {} {} {} }} }}", tri[o[0]], tri[o[1]], tri[o[2]])); }
                    for t in ["{ human { t: self { x: name ...A ...F } } } fragment A on Human { ...G1 } fragment F on Human { ...G1 ...G2 } fragment G1 on Human { nn } fragment G2 on Human { x: nn }",
                              "{ human { g: self { nn } g: self { ...F2 } t: self { x: name } t: self { ...F2 } } } fragment F2 on Human { ...F3 } fragment F3 on Human { x: nn }",
                              "{ human { x: name ...A } } fragment A on Human { ...B self { ...B } } fragment B on Human { x: nn }",
                              "{ human { self { x: name } ...A } } fragment A on Human { self { ...B } } fragment B on Human { x: name }"] { docs.push(t.to_string()); }
                }
                if si.name != "merge-order" && si.name != "dup-names" && si.name != "merge-abstract" && si.name != "no-subscription-root" { for k in 0..(36 * scale) { let mut g = gen::DocGen::new(si, rng.fork(), [0, 0, 4, 12][k % 4], 2 + k % 3); docs.push(g.document()); } }
                // a permuted copy of the schema (definitions, fields, arguments, enum values, union members, interface lists, directive locations)
                let psd = crate::rewrite::perm_schema(&si.doc, &mut rng);
                let psi = gen::SchemaInfo::new(&format!("{}-permuted", si.name), &format!("{}", psd));
                let mut variants: Vec<(usize, &'static str, String)> = vec![];
                out.schema(si);
                for t in &docs {
                    let base = match gen::parse_doc(t) { Some(d) => d, None => continue };
                    group += 1;
                    crate::valcases::accept_case(si, t, &tmp, json!({"family": "base", "group": group, "rewrite": "none"}), out);
                    let mut push = |name: &'static str, d: graphql_tools::static_graphql::query::Document, out: &mut Out| {
                        // only where the external printer preserves the AST
                        if crate::rewrite::reparse(&d).is_some() { crate::valcases::accept_case(si, &format!("{}", d), &tmp, json!({"family": name, "group": group, "rewrite": name}), out); }
                        else { crate::valcases::PRINTER_LOSSY.fetch_add(1, std::sync::atomic::Ordering::Relaxed); }
                    };
                    push("print-reparse", base.clone(), out);
                    push("permute-definitions", crate::rewrite::perm_definitions(&base, &mut rng), out);
                    push("reverse-definitions", crate::rewrite::reverse_definitions(&base), out);
                    push("permute-selections", crate::rewrite::perm_selections(&base, &mut rng), out);
                    push("reverse-selections", crate::rewrite::reverse_selections(&base), out);
                    push("permute-arguments", crate::rewrite::perm_arguments(&base, &mut rng), out);
                    push("reverse-arguments", crate::rewrite::reverse_arguments(&base), out);
                    push("permute-variables", crate::rewrite::perm_variables(&base, &mut rng), out);
                    push("reverse-variables", crate::rewrite::reverse_variables(&base), out);
                    push("rename", crate::rewrite::rename_all(&base), out);
                    push("wrap-untyped-inline", crate::rewrite::wrap_untyped(&base), out);
                    for name in crate::rewrite::inlinable(&base) { push("inline-spread", crate::rewrite::inline_fragment(&base, &name), out); }
                    variants.push((group, "permute-schema", t.clone()));
                }
                out.schema(&psi);
                for (g, name, t) in variants.iter() { crate::valcases::accept_case(&psi, t, &tmp, json!({"family": name, "group": g, "rewrite": name}), out); }
            }
        }
        "c01" => {
            // documents the type-directed generator makes without deviating (most are spec-valid; the check
            // judges only those the spec accepts), over the curated and random schemas
            let tmp = tmpdir();
            let mut sis = pool();
            for i in 0..(6 * scale) { sis.push(gen::SchemaInfo::new(&format!("random{}", i), &gen::random_schema(&mut rng))); }
            for si in &sis {
                out.schema(si);
                for t in corpus_docs(corpus, &si.name) { crate::valcases::accept_case(si, &t, &tmp, json!({"family": "corpus"}), out); }
                for k in 0..(260 * scale) {
                    let mut g = gen::DocGen::new(si, rng.fork(), 0, 2 + k % 4);
                    let t = g.document();
                    crate::valcases::accept_case(si, &t, &tmp, json!({"family": "valid-by-construction"}), out);
                }
            }
            // the per-rule enumerators of C04..C11 as whole-plan cases: the documents among them that violate none of the 24
            // conditions (judged by the Lean spec) must be accepted
            for k in ["c05", "c04", "c06", "c07", "c08", "c09", "c10", "c11"] {
                crate::valcases::FULL_MODE.store(if thorough { 1 } else if k == "c05" { 3 } else { 11 }, std::sync::atomic::Ordering::Relaxed);
                generate(k, false, seed ^ 0x3131, "", out);
            }
            crate::valcases::FULL_MODE.store(0, std::sync::atomic::Ordering::Relaxed);
            // valid usages of a nullable variable at a non-null location that declares a default (F13)
            let sdl = format!("{}\ninput In {{ v: Int! = 2  w: [Int!]! = [1] }}\ntype Query {{ f(d: Int! = 1, l: [Int]! = [], o: In, plain: Int): Int }}\ndirective @dd(d: Int! = 1) on FIELD\n", schemas::PRELUDE);
            let si = gen::SchemaInfo::new("locdefault", &sdl);
            out.schema(&si);
            for t in ["query ($x: Int) { f(d: $x) }", "query ($x: [Int]) { f(l: $x) }", "query ($x: Int) { f(o: {v: $x}) }", "query ($x: [Int!]) { f(o: {w: $x}) }",
                      "query ($x: Int) { f @dd(d: $x) }", "query ($x: Int) { ...F } fragment F on Query { f(d: $x) }"] {
                crate::valcases::accept_case(&si, t, &tmp, json!({"family": "location-default", "spec_valid": true}), out);
            }
            for t in ["query ($x: Int!) { f(d: $x) }", "query ($x: Int = 3) { f(d: $x) }", "query ($x: Int) { f(plain: $x) }", "{ f(d: 2, o: {v: 1, w: [1]}) }", "{ f }"] {
                crate::valcases::accept_case(&si, t, &tmp, json!({"family": "location-default-control"}), out);
            }
            // a variable used where a SUPERTYPE of its type is expected (non-null strengthened at any level, defaults promoting
            // a nullable variable): spec-valid, must be accepted
            {
                let shapes = ["Int", "Int!", "[Int]", "[Int!]", "[Int]!", "[Int!]!", "[[Int]]", "[[Int!]!]!", "[[Int]!]!", "[[Int!]]"];
                let pf: String = shapes.iter().enumerate().map(|(k, t)| format!("p{}(v: {}): Int  q{}(b: Box{}): Int  r{}(bs: [Box{}]): Int", k, t, k, k, k, k)).collect::<Vec<_>>().join("  ");
                let boxes: String = shapes.iter().enumerate().map(|(k, t)| format!("input Box{} {{ v: {} }}", k, t)).collect::<Vec<_>>().join("\n");
                let si = gen::SchemaInfo::new("subtype-usages", &format!("{}\n{}\ntype Query {{ {} }}\n", schemas::PRELUDE, boxes, pf));
                out.schema(&si);
                for (kv, vt) in shapes.iter().enumerate() { for (kl, _lt) in shapes.iter().enumerate() {
                    let dv = match *vt { "Int" => "1", "[Int]" | "[Int!]" => "[1]", "[[Int]]" | "[[Int!]]" => "[[1]]", _ => "" };
                    let _ = kv;
                    for t in [format!("query ($x: {}) {{ p{}(v: $x) }}", vt, kl), format!("query ($x: {}) {{ q{}(b: {{v: $x}}) }}", vt, kl), format!("query ($x: {}) {{ r{}(bs: [{{v: $x}}]) }}", vt, kl)] {
                        crate::valcases::accept_case(&si, &t, &tmp, json!({"family": "subtype-usage"}), out);
                    }
                    if !dv.is_empty() { crate::valcases::accept_case(&si, &format!("query ($x: {} = {}) {{ p{}(v: $x) }}", vt, dv, kl), &tmp, json!({"family": "subtype-usage"}), out); }
                } }
            }
        }
        "c02" => {
            // (a) the per-rule enumerators (every way each rule can be violated, at every site they cover), as whole-plan cases
            let keep = if thorough { 2 } else { 9 };
            crate::valcases::FULL_MODE.store(keep, std::sync::atomic::Ordering::Relaxed);
            for k in ["c04", "c05", "c06", "c07", "c08", "c09", "c10", "c11"] { generate(k, false, seed ^ 0x5151, "", out); }
            crate::valcases::FULL_MODE.store(0, std::sync::atomic::Ordering::Relaxed);
            let tmp = tmpdir();
            // (c) one violation at a time, at two nesting depths, over a small schema
            let sdl = format!("{}\ninput In {{ req: Int!  opt: String }}\nenum E {{ X Y }}\ninterface P {{ a: Int  a2: Int }}\ninterface P2 {{ c: Int }}\ntype T2 implements P & P2 {{ a: Int  a2: Int  c: Int }}\ntype T implements P {{ a: Int  a2: Int  b: String  t: T  g(i: Int, l: [Int!], o: In, r: Int!): Int }}\ntype V {{ v: Int }}\nunion U = T | V\ntype Query {{ a: Int  t: T  f(x: Int, r: Int!): Int  p: P  u: U }}\ntype Mutation {{ m: Int }}\ninterface Feed {{ s1: Int }}\nunion SubU = Subscription | V\ntype Subscription implements Feed {{ s1: Int  s2: Int }}\ndirective @onField on FIELD\ndirective @onQuery on QUERY\n", schemas::PRELUDE);
            let si1 = gen::SchemaInfo::new("single-violation", &sdl);
            out.schema(&si1);
            let singles: Vec<(&str, &str)> = vec![
                ("UniqueOperationNames", "query A { a } query A { t { a } }"), ("UniqueOperationNames", "query A { a } mutation A { m }"),
                ("LoneAnonymousOperation", "{ a } query B { a }"), ("LoneAnonymousOperation", "query B { a } { a }"),
                ("SingleFieldSubscriptions", "subscription { s1 s2 }"), ("SingleFieldSubscriptions", "subscription S { ...F } fragment F on Subscription { s1 k: s1 }"),
                ("KnownTypeNames", "{ t { ... on Nope { __typename } } }"), ("KnownTypeNames", "{ ...F } fragment F on Nope { __typename }"),
                ("FragmentsOnCompositeTypes", "{ t { ... on E { __typename } } }"), ("FragmentsOnCompositeTypes", "{ t { t { ...F } } } fragment F on In { __typename }"),
                ("LeafFieldSelections", "{ t }"), ("LeafFieldSelections", "{ t { t { t } } }"), ("LeafFieldSelections", "{ p }"),
                ("FieldsOnCorrectType", "{ nope }"), ("FieldsOnCorrectType", "{ t { t { nope } } }"), ("FieldsOnCorrectType", "{ p { ... on T { a } b } }"),
                ("UniqueFragmentNames", "{ ...F } fragment F on Query { a } fragment F on Query { a }"),
                ("KnownFragmentNames", "{ ...Nope }"), ("KnownFragmentNames", "{ t { t { ...Nope } } }"),
                ("NoUnusedFragments", "{ a } fragment F on Query { a }"), ("NoUnusedFragments", "{ ...G } fragment G on Query { a } fragment F on T { a }"),
                ("OverlappingFieldsCanBeMerged", "{ t { x: a x: b } }"), ("OverlappingFieldsCanBeMerged", "{ p { ... on T { x: a } ... on P2 { x: c } } }"), ("OverlappingFieldsCanBeMerged", "{ p { ...A ...B } } fragment A on T { ... on P { x: a } } fragment B on T2 { ... on P { x: a2 } }"), ("OverlappingFieldsCanBeMerged", "{ t { t { a } } t { t { a: b } } }"), ("OverlappingFieldsCanBeMerged", "{ t { g(i: 1, r: 1) g(i: 2, r: 1) } }"),
                ("NoFragmentsCycle", "{ ...F } fragment F on Query { a ...F }"), ("NoFragmentsCycle", "{ t { ...A } } fragment A on T { a ...B } fragment B on T { b ...A }"),
                ("PossibleFragmentSpreads", "{ t { ... on V { v } } }"), ("PossibleFragmentSpreads", "{ t { t { ...F } } } fragment F on Query { a }"),
                ("NoUnusedVariables", "query ($v: Int) { a }"), ("NoUnusedVariables", "query ($v: Int, $w: Int) { t { g(i: $v, r: 1) } }"),
                ("NoUndefinedVariables", "{ f(x: $v, r: 1) }"), ("NoUndefinedVariables", "query ($w: Int) { ...F f(x: $w, r: 1) } fragment F on Query { t { g(l: [1, $v], r: 1) } }"),
                ("KnownArgumentNames", "{ f(zz: 1, r: 1) }"), ("KnownArgumentNames", "{ t { t { g(zz: 1, r: 1) } } }"), ("KnownArgumentNames", "{ a @skip(if: true, zz: 1) }"),
                ("UniqueArgumentNames", "{ f(x: 1, x: 1, r: 1) }"), ("UniqueArgumentNames", "{ a @skip(if: true, if: true) }"),
                ("UniqueVariableNames", "query ($v: Int, $v: Int) { f(x: $v, r: 1) }"),
                ("ProvidedRequiredArguments", "{ f(x: 1) }"), ("ProvidedRequiredArguments", "{ t { t { g } } }"), ("ProvidedRequiredArguments", "{ a @skip }"),
                ("KnownDirectives", "{ a @nope }"), ("KnownDirectives", "{ a @onQuery }"), ("KnownDirectives", "query @onField { a }"),
                ("UniqueDirectivesPerLocation", "{ a @onField @onField }"), ("UniqueDirectivesPerLocation", "{ t { t { a @skip(if: true) @skip(if: false) } } }"),
                ("VariablesInAllowedPosition", "query ($v: String) { f(x: $v, r: 1) }"), ("VariablesInAllowedPosition", "query ($v: Int) { f(r: $v) }"), ("VariablesInAllowedPosition", "query ($v: [Int]) { t { g(l: $v, r: 1) } }"),
                ("VariablesInAllowedPosition", "query ($v: Int) { f(r: $v) k: f(x: $v, r: 1) }"), ("VariablesInAllowedPosition", "query ($v: Int) { k: f(x: $v, r: 1) f(r: $v) }"),
                ("VariablesInAllowedPosition", "query ($v: Int) { f(x: $v, r: $v) }"), ("VariablesInAllowedPosition", "query ($v: Int) { f(r: $v, x: $v) }"),
                ("VariablesInAllowedPosition", "query ($v: Int) { t { ...F } } fragment F on T { g(r: $v) k: g(i: $v, r: 1) }"),
                ("VariablesInAllowedPosition", "query ($v: Int) { t { ...F } } fragment F on T { k: g(i: $v, r: 1) g(r: $v) }"),
                ("VariablesInAllowedPosition", "query ($v: Int) { f(x: $v, r: 1) t { ...F } } fragment F on T { g(r: $v) }"),
                ("VariablesInAllowedPosition", "query ($v: Int) { t { ...F } k: f(x: $v, r: 1) } fragment F on T { g(r: $v) }"),
                ("ValuesOfCorrectType", "{ f(x: \"s\", r: 1) }"), ("ValuesOfCorrectType", "{ t { g(o: {opt: \"x\"}, r: 1) } }"), ("ValuesOfCorrectType", "{ t { t { g(l: [1, null], r: 1) } } }"), ("ValuesOfCorrectType", "{ f(r: null) }"),
                ("VariablesAreInputTypes", "query ($v: T) { a }"),
                ("SingleFieldSubscriptions", "subscription S { s2 ... on Feed { s1 } }"), ("SingleFieldSubscriptions", "subscription S { ...F } fragment F on SubU { ... on Subscription { s1 s2 } }"),
                ("SingleFieldSubscriptions", "subscription { ... on Feed { s1 ... on Subscription { k: s2 } } }"),
                // only the SECOND / THIRD operation violates, through a fragment an earlier operation has walked already
                ("VariablesInAllowedPosition", "query A($v: Int!) { t { ...F } } query B($v: Int) { t { ...F } } fragment F on T { g(r: $v) }"),
                ("VariablesInAllowedPosition", "query A($v: Int!) { ...F } query B($v: Int!) { ...F } query C($v: Int) { t { ...G } } fragment F on Query { t { ...G } } fragment G on T { g(r: $v) }"),
                ("NoUndefinedVariables", "query A($v: Int!) { t { ...F } } query B { t { ...F } } fragment F on T { g(r: $v) }"),
                ("NoUnusedVariables", "query A($v: Int!) { t { ...F } } query B($v: Int!, $w: Int) { t { ...F } } fragment F on T { g(r: $v) }"),
                ("NoUnusedVariables", "query A($v: Int!) { t { ...F } } query B($v: Int!) { a } fragment F on T { g(r: $v) }"),
            ];
            for (rule, t) in singles.iter() {
                crate::valcases::accept_case(&si1, t, &tmp, json!({"family": "single-violation", "violates": rule, "spec_invalid": true}), out);
            }
            // (b) deviations injected into type-directed documents: 3 %, 10 %, 30 % per choice point
            for si in pool() {
                out.schema(&si);
                for k in 0..(150 * scale) {
                    let mut g = gen::DocGen::new(&si, rng.fork(), [3, 10, 30][k % 3], 2 + k % 4);
                    let t = g.document();
                    crate::valcases::accept_case(&si, &t, &tmp, json!({"family": "noise-injection"}), out);
                }
            }
        }
        "c03" => {
            let tmp = tmpdir();
            let sdl = format!("{}\ninterface I {{ a: Int  t: T  i: I }}\ntype T implements I {{ a: Int  b: String  t: T  i: I  u: U  f(x: Int): Int }}\ntype V {{ a: String  t: T }}\nunion U = T | V\ntype Query {{ a: Int  t: T  i: I  u: U }}\ntype Mutation {{ a: Int  t: T }}\ntype Subscription {{ a: Int  t: T }}\n", schemas::PRELUDE);
            let si = gen::SchemaInfo::new("term", &sdl);
            out.schema(&si);
            // (1) fragment graphs whose edges sit under same-key fields: the merge rule follows them
            fn nest(inner: &str, depth: usize, kind: usize) -> String {
                let mut t = inner.to_string();
                for l in 0..depth { t = if (l + kind) % 3 != 2 { format!("t {{ {} }}", t) } else { format!("... on T {{ {} }}", t) }; }
                t
            }
            let graph_doc = |n: usize, adj: u64, variant: usize| -> String {
                let mut t = format!("{{ t {{ a {} }} }}", (0..n).filter(|k| (variant >> k) & 1 == 1 || *k == 0).map(|k| format!("...F{}", k)).collect::<Vec<_>>().join(" "));
                for j in 0..n {
                    let mut body = String::from("a");
                    for k in 0..n { if adj >> (j * n + k) & 1 == 1 { body.push_str(&format!(" {}", nest(&format!("...F{}", k), (j + 2 * k + variant) % 4, variant + k))); } }
                    t.push_str(&format!(" fragment F{} on T {{ {} }}", j, body));
                }
                t
            };
            let mut variant = 0usize;
            for n in 1..=3usize {
                for adj in 0..(1u64 << (n * n)) {
                    if n == 3 && !thorough && adj % 5 != 0 { continue; }
                    variant += 1;
                    crate::valcases::termination_case(&si, &graph_doc(n, adj, variant), &tmp, "fragment-graph", out);
                }
            }
            for _ in 0..(150 * scale) {
                let n = 4 + rng.below(2) as usize;
                let mut adj = 0u64;
                for b in 0..(n * n) { if rng.below(6) == 0 { adj |= 1 << b; } }
                variant += 1;
                crate::valcases::termination_case(&si, &graph_doc(n, adj, variant), &tmp, "fragment-graph", out);
            }
            // (1b) the same fragment pair compared first under mutually exclusive parents, then under parents that may coincide
            // (and the other way round): the compared-pairs memo is keyed by the pair and keeps the exclusivity flag
            for adj in 0..(1u64 << 9) {
                if !thorough && adj % 3 != 0 { continue; }
                let mut frs = String::new();
                for j in 0..3 {
                    let mut body = String::from(if j == 2 { "b" } else { "a" });
                    for k in 0..3 { if adj >> (j * 3 + k) & 1 == 1 { body.push_str(&format!(" ...F{}", k)); } }
                    frs.push_str(&format!(" fragment F{} on T {{ {} }}", j, body));
                }
                let excl = "u { ... on T { t { ...F0 } } ... on V { t { ...F1 } } }"; let plain = "t { ...F0 ...F1 }";
                let t = if adj % 2 == 0 { format!("{{ {} {} }}{}", excl, plain, frs) } else { format!("{{ {} {} }}{}", plain, excl, frs) };
                crate::valcases::termination_case(&si, &t, &tmp, "exclusive-then-plain", out);
            }
            // the canonical witnesses
            for t in ["{ t { ...F } } fragment F on T { t { t { ...F } ...F } }", "{ ...F } fragment F on Query { ...F }", "{ t { ...A } } fragment A on T { t { ...B } } fragment B on T { t { ...A } }",
                      "{ t { ...A ...B } } fragment A on T { a ...B } fragment B on T { a ...A }", "{ t { ...A } } fragment A on T { ... on T { ... on T { ...A } } }",
                      "{ ...Nope } fragment F on Nope { ...F ...Nope nope { ...F } }", "query ($x: Nope = {a: [$x]}) @nope(a: $x) { nope(a: $x) @skip(if: $y) { ...F } } fragment F on T { a @include }"] {
                crate::valcases::termination_case(&si, t, &tmp, "witness", out);
            }
            // (2) size scaling without fragments: k same-key siblings, depth d (cost ~ (k^2)^d per selection set)
            for (k, dpt) in [(2usize, 2usize), (2, 4), (2, 6), (2, 8), (3, 3), (3, 5), (4, 3), (4, 4), (6, 2), (8, 2), (16, 1), (40, 1)] {
                fn tree(k: usize, d: usize) -> String { if d == 0 { "a".into() } else { (0..k).map(|_| format!("t {{ {} }}", tree(k, d - 1))).collect::<Vec<_>>().join(" ") } }
                let t = format!("{{ {} }}", tree(k, dpt));
                if crate::valcases::size_depth(&gen::parse_doc(&t).unwrap()).0 <= 400 { crate::valcases::termination_case(&si, &t, &tmp, "same-key-tree", out); }
            }
            // many spreads of few fragments under same-key parents (the shape of graphql-js CVE-2023-26144)
            for m in [2usize, 4, 8, 16, 32] {
                let sp: String = (0..m).map(|i| format!("...F{} ", i % 3)).collect();
                let t = format!("{{ t {{ {} }} t {{ {} }} }} fragment F0 on T {{ t {{ {} a }} }} fragment F1 on T {{ t {{ a b }} }} fragment F2 on T {{ a t {{ b }} }}", sp, sp, "...F1 ...F2 ".repeat(m.min(8)));
                crate::valcases::termination_case(&si, &t, &tmp, "many-spreads", out);
            }
            // deep nesting (<= 12) and long chains of fragments
            for dpt in [4usize, 8, 12] {
                let mut t = String::from("a"); for _ in 0..dpt { t = format!("t {{ {} ... on T {{ a }} }}", t); }
                crate::valcases::termination_case(&si, &format!("{{ {} }}", t), &tmp, "deep", out);
            }
            for n in [10usize, 40, 120] {
                let mut t = String::from("{ t { ...F0 } }");
                for j in 0..n { t.push_str(&format!(" fragment F{} on T {{ t {{ {} }} }}", j, if j + 1 < n { format!("...F{}", j + 1) } else { "a".to_string() })); }
                crate::valcases::termination_case(&si, &t, &tmp, "chain", out);
            }
            // a ladder of diamonds: k layers of two fragments, each spreading both fragments of the next layer (2^k spread paths, ~6k nodes,
            // no cycle): the memo tables must keep the work polynomial
            for k in (if thorough { vec![8usize, 12, 16, 20, 24, 28] } else { vec![8usize, 14, 20, 24] }) {
                let mut t = String::from("{ t { ...L0a ...L0b } }");
                for i in 0..k { t.push_str(&format!(" fragment L{}a on T {{ a ...L{}a ...L{}b }} fragment L{}b on T {{ b ...L{}a ...L{}b }}", i, i + 1, i + 1, i, i + 1, i + 1)); }
                t.push_str(&format!(" fragment L{}a on T {{ a }} fragment L{}b on T {{ b }}", k, k));
                crate::valcases::termination_case(&si, &t, &tmp, "diamond-ladder", out);
            }
            // ill-typed literals whose rendering in the error message is long and full of multi-byte characters, at every byte alignment
            for pad in 0..8usize {
                for (n, ch) in [(300usize, "é"), (520, "é"), (350, "€"), (260, "😀"), (1100, "é")] {
                    let text = format!("{}{}", "a".repeat(pad), ch.repeat(n));
                    for t in [format!("{{ t {{ f(x: \"{}\") }} }}", text), format!("{{ t {{ f(x: [\"{}\", 1]) }} }}", text), format!("{{ t {{ f(x: {{k: \"{}\"}}) }} }}", text),
                              format!("query ($v: Int = \"{}\") {{ t {{ f(x: $v) }} }}", text)] {
                        if pad < 4 || n == 520 { crate::valcases::termination_case(&si, &t, &tmp, "long-multibyte-literal", out); }
                    }
                }
            }
            // the same ladder below a subscription root: single-field-subscriptions expands the fragments with `collect_fields`, whose
            // visited list must keep that linear too
            for k in (if thorough { vec![8usize, 16, 22, 26, 30] } else { vec![10usize, 18, 26] }) {
                let mut t = String::from("subscription S { ...L0a ...L0b }");
                for i in 0..k { t.push_str(&format!(" fragment L{}a on Subscription {{ ...L{}a ...L{}b }} fragment L{}b on Subscription {{ ...L{}a ...L{}b }}", i, i + 1, i + 1, i, i + 1, i + 1)); }
                t.push_str(&format!(" fragment L{}a on Subscription {{ a }} fragment L{}b on Subscription {{ a }}", k, k));
                crate::valcases::termination_case(&si, &t, &tmp, "diamond-ladder-subscription", out);
            }
            // every way each rule can be violated, as enumerated for C04..C11 (one document in 12; thorough: in 3), all plans
            crate::valcases::FULL_TERMINATION.store(true, std::sync::atomic::Ordering::Relaxed);
            crate::valcases::FULL_MODE.store(if thorough { 3 } else { 12 }, std::sync::atomic::Ordering::Relaxed);
            for k in ["c04", "c05", "c06", "c07", "c08", "c09", "c10", "c11"] { generate(k, false, seed ^ 0x7373, "", out); }
            crate::valcases::FULL_MODE.store(0, std::sync::atomic::Ordering::Relaxed);
            crate::valcases::FULL_TERMINATION.store(false, std::sync::atomic::Ordering::Relaxed);
            // (3) arbitrary (mostly invalid) documents over the pool schemas
            for si in pool() {
                out.schema(&si);
                for t in corpus_docs(corpus, &si.name) { crate::valcases::termination_case(&si, &t, &tmp, "corpus", out); }
                for t in random_docs(&si, &mut rng, 40 * scale, 7) { crate::valcases::termination_case(&si, &t, &tmp, "random", out); }
                let noisy = random_docs(&si, &mut rng, 20 * scale, 9);
                for t in noisy { crate::valcases::termination_case(&si, &t, &tmp, "random-large", out); }
            }
        }
        "c05" => {
            let tmp = tmpdir();
            let sdl = merge_sdl();
            let si = gen::SchemaInfo::new("merge", &sdl);
            out.schema(&si);
            let mut group = 0usize;
            let mut emit = |t: String, family: &str, group: usize, out: &mut Out| {
                // declare $v only where it is used (whole-plan runs of these documents must not all fail on an unused variable)
                let t = if t.starts_with("query ($v: Int) ") && !t["query ($v: Int) ".len()..].contains("$v") { t["query ($v: Int) ".len()..].to_string() } else { t };
                crate::valcases::merge_case(&si, &t, &tmp, json!({"family": family, "group": group}), out);
            };
            // ---- pairs of same-key fields on Human
            let hv = ["k: f(fl: 1)", "k: f(fl: 1.0)", "k: f(fl: 1.5)", "k: f(o: {a: 1, fl: 2})", "k: f(o: {a: 1, fl: 2.0})", "k: name", "k: f", "k: f(x: 1)", "k: f(x: 2)", "k: f(x: $v)", "k: f(y: [1])", "k: f(y: [1, 2])", "k: f(o: {a: 1})", "k: f(o: {b: 1})", "k: f(o: {a: 1, b: 2})",
                      "k: f(x: 1, y: [1])", "k: f(y: [1], x: 1)", "k: list", "k: nn", "k: self { name }", "k: self { name: nn }", "k: self { name self { name } }", "k: self { name self { name: list } }", "k: pet { name }", "k: dog { name }", "k: dog { name: barks }"];
            // placements of (A, B) in one selection set on Human; `{0}` = A, `{1}` = B; fragments follow
            let placements: Vec<(&str, &str)> = vec![
                ("{A} {B}", ""), ("{B} {A}", ""),
                ("{A} ... on Human { {B} }", ""), ("... on Human { {A} } ... { {B} }", ""), ("... @skip(if: true) { ... on Human { {A} } } {B}", ""),
                ("{A} ...FB", "fragment FB on Human { {B} }"), ("...FB {A}", "fragment FB on Human { {B} }"),
                ("...FA ...FB", "fragment FA on Human { {A} } fragment FB on Human { {B} }"), ("...FB ...FA", "fragment FB on Human { {B} } fragment FA on Human { {A} }"),
                ("...FA ...G", "fragment FA on Human { {A} } fragment G on Human { name ...FB } fragment FB on Human { {B} }"),
                ("...G1 ...G2", "fragment G1 on Human { ...FA } fragment G2 on Human { ...FA ...FB } fragment FA on Human { {A} } fragment FB on Human { {B} }"),
                ("...G2 ...G1", "fragment FB on Human { {B} } fragment FA on Human { {A} } fragment G2 on Human { ...FB ...FA } fragment G1 on Human { ...FA }"),
            ];
            // where the selection set sits
            let contexts: Vec<&str> = vec![
                "{ human { {S} } } {F}", "{ human { self { self { {S} } } } } {F}", "{ human { self { self { self { {S} } } } } } {F}",
                "{ ... on Query { human { ... on Human { {S} } } } } {F}",
            ];
            let mut idx = 0usize;
            for (ia, a) in hv.iter().enumerate() { for (ib, b) in hv.iter().enumerate() {
                if ib < ia { continue; }
                group += 1;
                for (ip, (pl, frs)) in placements.iter().enumerate() {
                    let ctx = contexts[if thorough { idx % contexts.len() } else { 0 }];
                    idx += 1;
                    if !thorough && ip >= 2 && (ia + ib + ip) % 3 != 0 { continue; }
                    let s = pl.replace("{A}", a).replace("{B}", b);
                    let f = frs.replace("{A}", a).replace("{B}", b);
                    emit(format!("query ($v: Int) {}", ctx.replace("{S}", &s).replace("{F}", &f)), "human-pair", group, out);
                }
                // the same fragment spread under two pairs of same-key parents: compatible with the first, compared with B in the second
                if thorough || (ia + ib) % 2 == 0 {
                    emit(format!("query ($v: Int) {{ human {{ a: self {{ ...F }} a: self {{ {} }} b: self {{ ...F }} b: self {{ {} }} }} }} fragment F on Human {{ {} }}", a, b, a), "shared-frag", group, out);
                    emit(format!("query ($v: Int) {{ human {{ a: self {{ {} }} a: self {{ ...F }} b: self {{ {} }} b: self {{ ...F }} }} }} fragment F on Human {{ {} }}", b, a, b), "shared-frag", group, out);
                }
                // a chain of fragments CA -> CB spread from two selection sets; only the later-visited one has a field that meets CB's
                // (a memo keyed by fragment names alone would skip the second comparison)
                if thorough || (ia + ib) % 2 == 1 {
                    let frs = format!("fragment CA on Human {{ ...CB }} fragment CB on Human {{ {} }}", b);
                    emit(format!("query ($v: Int) {{ human {{ first: self {{ ...CA }} second: self {{ {} ...CA }} }} }} {}", a, frs), "chain-two-sites", group, out);
                    emit(format!("query Q1 {{ human {{ ...CA }} }} query Q2($v: Int) {{ human {{ {} ...CA }} }} {}", a, frs).replace("Q2($v: Int)", if a.contains("$v") || b.contains("$v") { "Q2($v: Int)" } else { "Q2" }).replace("query Q1 ", if b.contains("$v") { "query Q1($v: Int) " } else { "query Q1 " }), "chain-two-sites", group, out);
                    emit(format!("query ($v: Int) {{ human {{ self {{ ...CA }} }} human {{ self {{ ...CB {} }} }} }} {}", a, frs), "chain-two-sites", group, out);
                }
                for (ip, t) in [format!("{{ human {{ {} }} human {{ {} }} }}", a, b), format!("{{ human {{ self {{ {} }} }} human {{ self {{ {} }} }} }}", a, b),
                          format!("{{ human {{ self {{ {} }} ...F }} }} fragment F on Human {{ self {{ {} }} }}", a, b),
                          format!("{{ human {{ ...F ...G }} }} fragment F on Human {{ self {{ self {{ {} }} }} }} fragment G on Human {{ self {{ self {{ {} }} }} }}", a, b),
                          format!("{{ human {{ x: self {{ {} }} }} human {{ x: dog {{ name }} x: self {{ {} }} }} }}", a, b)].iter().enumerate() {
                    if !thorough && (ia + ib + ip) % 2 != 0 { continue; }
                    emit(format!("query ($v: Int) {}", t), "human-split", group, out);
                }
            } }
            // ---- pairs under abstract parents: fields of Dog vs Cat (mutually exclusive parents: only the shapes matter)
            let dv = ["k: boss { name }", "k: pack { name }", "k: name", "k: nick", "k: n", "k: l", "k: m", "k: barks", "k: owner { name }", "k: owner { name: nn }", "k: owner { name: list }", "k: owner { k: self { name } }", "k: owner { name: f(x: 1) }"];
            let cv = ["k: boss { name }", "k: pack { name }", "k: name", "k: nick", "k: n", "k: l", "k: m", "k: meows", "k: owner { name }", "k: owner { name: nn }", "k: owner { name: f }", "k: owner { k: self { name: nn } }", "k: owner { name: nick }", "k: owner { name: f(x: 2) }"];
            // the sub-selection of `owner` moved into a named fragment (exclusivity of the parents is inherited, F15-independent)
            let in_frag = |x: &str, f: &str| -> Option<(String, String)> {
                let i = x.find("owner { ")?;
                let body = &x[i + 8..x.len() - 2];
                Some((format!("{}owner {{ ...{} }}", &x[..i], f), format!("fragment {} on Human {{ {} }}", f, body)))
            };
            for a in dv.iter() { for b in cv.iter() {
                group += 1;
                for t in [format!("{{ pet {{ ... on Dog {{ {} }} ... on Cat {{ {} }} }} }}", a, b), format!("{{ pet {{ ... on Cat {{ {} }} ... on Dog {{ {} }} }} }}", b, a),
                          format!("{{ cd {{ ...D ...C }} }} fragment D on Dog {{ {} }} fragment C on Cat {{ {} }}", a, b),
                          format!("{{ pet {{ ... on Dog {{ {} }} ... on Pet {{ {} }} }} }}", a, b.replace("meows", "name").replace("k: n", "k: nick").replace("k: l", "k: nick").replace("k: m", "k: nick")),
                          format!("{{ human {{ pet {{ ... on Dog {{ {} }} }} pet {{ ... on Cat {{ {} }} }} }} }}", a, b),
                          format!("{{ dog {{ {} }} dog: cat {{ {} }} }}", a, b)] {
                    emit(t, "abstract-pair", group, out);
                }
                // one or both sides under inline fragments without a type condition (the enclosing type is inherited)
                for t in [format!("{{ pet {{ ... on Dog {{ ... {{ {} }} }} ... on Cat {{ {} }} }} }}", a, b),
                          format!("query ($w: Boolean) {{ pet {{ ... on Dog {{ {} }} ... on Cat {{ ... @include(if: $w) {{ {} }} }} }} }}", a, b),
                          format!("{{ cd {{ ...D ...C }} }} fragment D on Dog {{ ... {{ ... {{ {} }} }} }} fragment C on Cat {{ ... {{ {} }} }}", a, b)] {
                    emit(t, "abstract-untyped", group, out);
                }
                // sub-selections reached through named fragments on one or both sides
                let fa = in_frag(a, "OA"); let fb = in_frag(b, "OB");
                if let (Some((a2, fa2)), Some((b2, fb2))) = (fa, fb) {
                    for t in [format!("{{ pet {{ ... on Dog {{ {} }} ... on Cat {{ {} }} }} }} {}", a, b2, fb2),
                              format!("{{ pet {{ ... on Dog {{ {} }} ... on Cat {{ {} }} }} }} {}", a2, b, fa2),
                              format!("{{ pet {{ ... on Dog {{ {} }} ... on Cat {{ {} }} }} }} {} {}", a2, b2, fa2, fb2),
                              format!("{{ cd {{ ...D ...C }} }} fragment D on Dog {{ {} }} fragment C on Cat {{ {} }} {}", a, b2, fb2)] {
                        emit(t, "abstract-subfrag", group, out);
                    }
                }
            } }
            // ---- same-key fields whose enclosing types are not both object types although the fragments around them are on
            // different object types, or on an object type and an interface it does not implement: not mutually exclusive
            {
                let fv = ["k: name", "k: nick", "k: owner { name }", "k: owner { name: nick }", "k: owner { k: name }"];
                for a in fv.iter() { for b in fv.iter() {
                    group += 1;
                    for t in [format!("{{ pet {{ ... on Dog {{ {} }} ... on Feline {{ {} }} }} }}", a, b), format!("{{ pet {{ ... on Feline {{ {} }} ... on Dog {{ {} }} }} }}", b, a),
                              format!("{{ pet {{ ...A ...B }} }} fragment A on Dog {{ ... on Pet {{ {} }} }} fragment B on Cat {{ ... on Pet {{ {} }} }}", a, b),
                              format!("{{ pet {{ ...A ...B }} }} fragment A on Dog {{ ...C }} fragment B on Cat {{ ...D }} fragment C on Pet {{ {} }} fragment D on Pet {{ {} }}", a, b),
                              format!("{{ pet {{ ...B ...A }} }} fragment A on Dog {{ name ...C }} fragment B on Cat {{ ...D nick }} fragment D on Feline {{ {} }} fragment C on Pet {{ {} }}", b, a),
                              format!("{{ pet {{ ... on Dog {{ ... on Pet {{ {} }} }} ... on Cat {{ ... on Feline {{ {} }} }} }} }}", a, b),
                              format!("{{ cd {{ ... on Dog {{ ... on Pet {{ {} }} }} ... on Cat {{ ... on Pet {{ {} }} }} }} }}", a, b),
                              format!("{{ cd {{ ... on Dog {{ {} }} ... on Cat {{ ... on Feline {{ {} }} }} }} }}", a, b)] {
                        emit(t, "abstract-mixed", group, out);
                    }
                } }
            }
            // ---- fragment names that collide when two are written one after the other (Dog+DogName = DogDog+Name; AB+ABA ~ ABA+BA)
            for (n1, n2, n3, n4) in [("Dog", "DogName", "DogDog", "Name"), ("AB", "ABA", "ABAB", "A"), ("X", "XY", "XX", "Y")] {
                for (b3, b4) in [("n: name", "n: nick"), ("n: name", "n: name"), ("k: f(x: 1)", "k: f(x: 2)")] {
                    let frs = format!("fragment {} on Human {{ nn }} fragment {} on Human {{ list }} fragment {} on Human {{ {} }} fragment {} on Human {{ {} }}", n1, n2, n3, b3, n4, b4);
                    for order in [[0usize, 1, 2, 3], [2, 3, 0, 1], [0, 2, 1, 3], [3, 2, 1, 0], [1, 0, 3, 2]] {
                        let names = [n1, n2, n3, n4];
                        let spreads: String = order.iter().map(|i| format!(" ...{}", names[*i])).collect();
                        group += 1;
                        emit(format!("{{ human {{{} }} }} {}", spreads, frs), "concat-fragment-names", group, out);
                    }
                }
            }
            // ---- three fields under one key, in every order: the two that conflict need not be neighbours
            {
                let tv = ["k: name", "k: nn", "k: self { name }", "k: self { nick }", "k: self { name: nick }", "k: f(x: 1)", "k: self { self { name } }", "k: self { self { name: nn } }"];
                let mut c = 0usize;
                for a in tv.iter() { for b in tv.iter() { for cc in tv.iter() {
                    c += 1;
                    if a == b && b == cc { continue; }
                    if !thorough && c % 3 != 0 { continue; }
                    group += 1;
                    emit(format!("{{ human {{ {} {} {} }} }}", a, b, cc), "triple", group, out);
                    if thorough || c % 2 == 0 { emit(format!("{{ human {{ {} ...FB ... on Human {{ {} }} }} }} fragment FB on Human {{ {} }}", a, cc, b), "triple", group, out); }
                } } }
                for (a, b, cc) in [("... on Cat { x: name }", "... on Dog { x: name }", "... on Cat { x: nick }"), ("... on Dog { x: n }", "... on Cat { x: name }", "... on Dog { x: m }"),
                                   ("... on Dog { x: owner { name } }", "... on Cat { x: owner { nick } }", "... on Dog { x: owner { name: nick } }")] {
                    for perm in [[0usize, 1, 2], [0, 2, 1], [1, 0, 2], [1, 2, 0], [2, 0, 1], [2, 1, 0]] {
                        let v = [a, b, cc];
                        group += 1;
                        emit(format!("{{ pet {{ {} {} {} }} }}", v[perm[0]], v[perm[1]], v[perm[2]]), "triple", group, out);
                    }
                }
            }
            // ---- the recorded witnesses of F15 (a) and (b), and near misses
            for t in ["{ human { g: self { nn } g: self { ...F2 } t: self { x: name } t: self { ...F2 } } } fragment F2 on Human { ...F3 } fragment F3 on Human { x: nn }",
                      "{ human { t: self { x: name } t: self { ...F2 } } } fragment F2 on Human { ...F3 } fragment F3 on Human { x: nn }",
                      "{ human { t: self { x: name ...A ...F } } } fragment A on Human { ...G1 } fragment F on Human { ...G1 ...G2 } fragment G1 on Human { nn } fragment G2 on Human { x: nn }",
                      "{ human { t: self { x: name ...A ...F } } } fragment A on Human { ...G1 } fragment F on Human { ...G2 ...G1 } fragment G1 on Human { nn } fragment G2 on Human { x: nn }"] {
                group += 1;
                emit(t.to_string(), "f15-witness", group, out);
            }
            // ---- random documents (acyclic ones are judged)
            for si2 in pool() {
                out.schema(&si2);
                for t in corpus_docs(corpus, &si2.name) { crate::valcases::merge_case(&si2, &t, &tmp, json!({"family": "corpus", "group": 0}), out); }
                for t in random_docs(&si2, &mut rng, 120 * scale, 5) { crate::valcases::merge_case(&si2, &t, &tmp, json!({"family": "random", "group": 0}), out); }
            }
        }
        "c06" => {
            let tmp = tmpdir();
            let rules = ["UniqueFragmentNames", "KnownFragmentNames", "KnownTypeNames", "FragmentsOnCompositeTypes",
                         "NoUnusedFragments", "NoFragmentsCycle", "PossibleFragmentSpreads"];
            let sdl = frags_sdl();
            let si = gen::SchemaInfo::new("frags", &sdl);
            out.schema(&si);
            // (A) fragment graphs: edge j -> k of fragment j is a spread of Fk nested `depth` levels deep
            fn nest(inner: &str, depth: usize, kind: usize) -> String {
                let mut t = inner.to_string();
                for l in 0..depth {
                    t = if (l + kind) % 2 == 0 { format!("t {{ {} }}", t) } else { format!("... on T {{ {} }}", t) };
                }
                t
            }
            let graph_doc = |n: usize, adj: u64, roots: u64, variant: usize| -> String {
                let mut t = String::new();
                let mut rs = String::new();
                for k in 0..n { if roots >> k & 1 == 1 { rs.push_str(&format!(" {}", nest(&format!("...F{}", k), (k + variant) % 3, variant))); } }
                t.push_str(&format!("{{ t {{ a{} }} }}", rs));
                for j in 0..n {
                    let mut body = String::from("a");
                    for k in 0..n {
                        if adj >> (j * n + k) & 1 == 1 { body.push_str(&format!(" {}", nest(&format!("...F{}", k), (j + 2 * k + variant) % 5, variant + k))); }
                    }
                    t.push_str(&format!(" fragment F{} on T {{ {} }}", j, body));
                }
                t
            };
            let mut variant = 0usize;
            for n in 1..=3usize {
                for adj in 0..(1u64 << (n * n)) {
                    for roots in 0..(1u64 << n) {
                        if n == 3 && !thorough && (adj + roots) % 3 != 0 { continue; }
                        variant += 1;
                        crate::valcases::rules_case(&si, &graph_doc(n, adj, roots, variant), &rules, &tmp, out);
                    }
                }
            }
            for _ in 0..(1200 * scale) {
                let n = 4 + rng.below(3) as usize;
                let mut adj = 0u64;
                let dens = 1 + rng.below(4);
                for b in 0..(n * n) { if rng.below(8) < dens { adj |= 1 << b; } }
                let roots = rng.next() & ((1 << n) - 1);
                variant += 1;
                crate::valcases::rules_case(&si, &graph_doc(n, adj, roots, variant), &rules, &tmp, out);
            }
            // spreads of undefined fragments, at every depth, in operations and in (used / unused) fragments
            for depth in 0..5usize {
                for kind in 0..2usize {
                    let sp = nest("...Nope", depth, kind);
                    for t in [format!("{{ t {{ a {} }} }}", sp), format!("{{ t {{ ...F0 }} }} fragment F0 on T {{ a {} }}", sp),
                              format!("{{ t {{ a }} }} fragment F0 on T {{ a {} }}", sp), format!("{{ t {{ ...F0 {} }} }} fragment F0 on T {{ {} ...F0 }}", sp, sp),
                              format!("query A {{ t {{ {} }} }} query B {{ t {{ ...F0 }} }} fragment F0 on T {{ a }} fragment Nope2 on T {{ {} }}", sp, sp)] {
                        crate::valcases::rules_case(&si, &t, &rules, &tmp, out);
                    }
                }
            }
            // long chains and rings (depth of the marking passes)
            for n in [8usize, 20, 60] {
                for ring in [false, true] {
                    let mut t = String::from("{ t { ...F0 } }");
                    for j in 0..n {
                        let next = if j + 1 < n { format!("...F{}", j + 1) } else if ring { "...F0".to_string() } else { "a".to_string() };
                        t.push_str(&format!(" fragment F{} on T {{ t {{ {} }} }}", j, next));
                    }
                    crate::valcases::rules_case(&si, &t, &rules, &tmp, out);
                }
            }
            // chains longer than any fixed bound one might pick, closing back into their own middle (a cycle that is only met far
            // down one path), written in definition order and in reverse
            for (n, back) in [(101usize, 1usize), (110, 60), (130, 129), (140, 0), (105, 104)] {
                for rev in [false, true] {
                    let mut defs: Vec<String> = vec!["query { ...F0 }".to_string()];
                    for j in 0..n {
                        let next = if j + 1 < n { format!("...F{}", j + 1) } else { format!("...F{}", back) };
                        defs.push(format!("fragment F{} on Query {{ {} }}", j, next));
                    }
                    if rev { defs.reverse(); }
                    crate::valcases::rules_case(&si, &defs.join(" "), &rules, &tmp, out);
                }
            }
            // (B) type conditions of every kind at every kind of enclosing type
            let parents = ["", "t", "i", "j", "u", "u2", "v", "w", "k", "l", "x", "m", "nope"];   // m: an interface that implements I and has no implementing object
            let conds = ["Query", "T", "V", "W", "X", "I", "J", "K", "L", "M", "U", "U2", "E", "In", "Custom", "Int", "Unknown", "__Type", "__Schema", "__Foo", "__typename"];
            for p in parents.iter() {
                let wrap = |inner: &str| if p.is_empty() { format!("{{ {} }}", inner) } else { format!("{{ {} {{ {} }} }}", p, inner) };
                crate::valcases::rules_case(&si, &wrap("... { __typename }"), &rules, &tmp, out);
                crate::valcases::rules_case(&si, &wrap("... @skip(if: true) { ... on T { __typename } }"), &rules, &tmp, out);
                for c in conds.iter() {
                    crate::valcases::rules_case(&si, &wrap(&format!("... on {} {{ __typename }}", c)), &rules, &tmp, out);
                    crate::valcases::rules_case(&si, &format!("{} fragment F on {} {{ __typename }}", wrap("...F"), c), &rules, &tmp, out);
                    for c2 in ["T", "I", "K", "U", "V", "M", "Unknown"] {
                        crate::valcases::rules_case(&si, &wrap(&format!("... on {} {{ ... on {} {{ __typename }} }}", c, c2)), &rules, &tmp, out);
                        crate::valcases::rules_case(&si, &format!("{} fragment F on {} {{ ...G }} fragment G on {} {{ __typename }}", wrap("...F"), c, c2), &rules, &tmp, out);
                    }
                }
            }
            for c in conds.iter() {
                for w in ["{}", "{}!", "[{}]", "[{}!]!", "[[{}]]"] {
                    crate::valcases::rules_case(&si, &format!("query ($v: {}) {{ a }}", w.replace("{}", c)), &rules, &tmp, out);
                }
            }
            // (C) duplicate fragment names
            let names = ["A", "B"];
            for len in 1..=3usize {
                for code in 0..(1usize << len) {
                    for roots in 0..4usize {
                        let mut t = format!("{{ t {{ a {} {} }} }}", if roots & 1 == 1 { "...A" } else { "" }, if roots & 2 == 2 { "...B" } else { "" });
                        for k in 0..len { t.push_str(&format!(" fragment {} on T {{ a{} }}", names[code >> k & 1], if k == 0 { " ...B" } else { "" })); }
                        crate::valcases::rules_case(&si, &t, &rules, &tmp, out);
                    }
                }
            }
            // type names that collide when two are concatenated: a verdict remembered for one pair must not answer for the other
            {
                let si = gen::SchemaInfo::new("concat-names", &format!("{}{}", schemas::PRELUDE, schemas::CONCAT));
                out.schema(&si);
                let a = "node { ... on ListItem { v } }"; let b = "list { ... on Item { id } }";
                let c = "node { ...FL }"; let dd = "list { ...FI }";
                let frs = " fragment FL on ListItem { v } fragment FI on Item { id }";
                for (x, y) in [(a, b), (b, a), (c, dd), (dd, c), (a, dd), (dd, a), (b, c), (c, b)] {
                    crate::valcases::rules_case(&si, &format!("{{ {} {} }}{}", x, y, if x.contains("...F") || y.contains("...F") { frs } else { "" }), &rules, &tmp, out);
                    crate::valcases::rules_case(&si, &format!("query A {{ {} }} query B {{ {} }}{}", x, y, if x.contains("...F") || y.contains("...F") { frs } else { "" }), &rules, &tmp, out);
                }
            }
            for si in pool() {
                out.schema(&si);
                for t in corpus_docs(corpus, &si.name) { crate::valcases::rules_case(&si, &t, &rules, &tmp, out); }
                for t in random_docs(&si, &mut rng, 100 * scale, 5) { crate::valcases::rules_case(&si, &t, &rules, &tmp, out); }
            }
        }
        "c07" => {
            let tmp = tmpdir();
            let rules = ["UniqueVariableNames", "VariablesAreInputTypes", "NoUndefinedVariables", "NoUnusedVariables", "VariablesInAllowedPosition"];
            // ---- (variable type, location type, variable default, location default) tuples
            #[derive(Clone, PartialEq)]
            enum T { Named(&'static str), List(Box<T>), NonNull(Box<T>) }
            fn show(t: &T) -> String { match t { T::Named(n) => n.to_string(), T::List(i) => format!("[{}]", show(i)), T::NonNull(i) => format!("{}!", show(i)) } }
            fn build(base: &'static str, shape: &str) -> T {
                match shape.chars().next() { None => T::Named(base), Some('L') => T::List(Box::new(build(base, &shape[1..]))), Some(_) => T::NonNull(Box::new(build(base, &shape[1..]))) }
            }
            // the spec's AreTypesCompatible / IsVariableUsageAllowed (input types: no abstract types)
            fn compat(v: &T, l: &T) -> bool {
                match (v, l) {
                    (T::NonNull(vi), T::NonNull(li)) => compat(vi, li),
                    (_, T::NonNull(_)) => false,
                    (T::NonNull(vi), _) => compat(vi, l),
                    (T::List(vi), T::List(li)) => compat(vi, li),
                    (T::List(_), _) | (_, T::List(_)) => false,
                    (T::Named(a), T::Named(b)) => a == b,
                }
            }
            fn allowed(v: &T, l: &T, non_null_default: bool, loc_default: bool) -> bool {
                if let (T::NonNull(li), false) = (l, matches!(v, T::NonNull(_))) {
                    (non_null_default || loc_default) && compat(v, li)
                } else { compat(v, l) }
            }
            fn literal(t: &T) -> String {
                match t { T::NonNull(i) => literal(i), T::List(i) => format!("[{}]", literal(i)),
                    T::Named("Int") => "1".into(), T::Named("String") => "\"s\"".into(), T::Named("Color") => "RED".into(), T::Named(_) => "{req: 1}".into() }
            }
            let bases = ["Int", "String", "In", "Color"];
            let shapes = ["", "N", "L", "LN", "NL", "NLN", "LL"];
            let mut tys: Vec<T> = vec![];
            for b in bases.iter() { for sh in shapes.iter() { tys.push(build(b, sh)); } }
            let mut args = vec![]; let mut boxes = String::new();
            for (k, t) in tys.iter().enumerate() {
                args.push(format!("a{}: {}", k, show(t)));
                args.push(format!("d{}: {} = {}", k, show(t), literal(t)));
                args.push(format!("l{}: [{}]", k, show(t)));
                args.push(format!("box{}: Box{}", k, k));
                args.push(format!("dbox{}: DBox{}", k, k));
                boxes.push_str(&format!("input Box{} {{ v: {} }}\ninput DBox{} {{ v: {} = {} }}\n", k, show(t), k, show(t), literal(t)));
            }
            // one single-argument field per type: a usage there is the document's only possible violation
            let pfields: String = tys.iter().enumerate().map(|(k, t)| format!("p{}(v: {}): Int", k, show(t))).collect::<Vec<_>>().join("  ");
            let sdl = format!("{}\nenum Color {{ RED GREEN }}\ninput In {{ req: Int!  opt: String  nest: In }}\n{}\ntype Query {{ f({}): Int  w: W  plain(i: Int, s: String, l: [Int], inp: In): Int  {} }}\ntype W {{ g({}): Int  w: W  {} }}\ninterface Node {{ id: ID }}\nunion U = W | Query\nscalar Custom\ndirective @d({}) on FIELD | QUERY | FRAGMENT_SPREAD | INLINE_FRAGMENT\n",
                schemas::PRELUDE, boxes, args.join(", "), pfields, args.join(", "), pfields, args.join(", "));
            let si = gen::SchemaInfo::new("vars", &sdl);
            out.schema(&si);
            let mut i = 0usize;
            for (kv, vt) in tys.iter().enumerate() {
                for (kl, lt) in tys.iter().enumerate() {
                    for dflt in 0..3usize {
                        let (dtext, nn) = match dflt { 0 => (String::new(), false), 1 => (" = null".to_string(), false), _ => (format!(" = {}", literal(vt)), true) };
                        if dflt == 1 && matches!(vt, T::NonNull(_)) { continue; }
                        for loc_default in [false, true] {
                            // usage sites; (text of the selection using $x, expected location type, location declares a default)
                            let pre = if loc_default { "d" } else { "a" };
                            let sites: Vec<(String, T, bool)> = vec![
                                (format!("f({}{}: $x)", pre, kl), lt.clone(), loc_default),
                                (format!("f @d({}{}: $x)", pre, kl), lt.clone(), loc_default),
                                (format!("w {{ w {{ g({}{}: $x) }} }}", pre, kl), lt.clone(), loc_default),
                                (format!("f(l{}: [$x])", kl), lt.clone(), false),
                                (format!("f({}box{}: {{v: $x}})", if loc_default { "d" } else { "" }, kl), lt.clone(), loc_default),
                                (format!("...F"), lt.clone(), loc_default),
                                (format!("w {{ p{}(v: $x) }}", kl), lt.clone(), false),
                            ];
                            for (p, (site, l, ld)) in sites.iter().enumerate() {
                                if !(thorough || p == i % sites.len()) { continue; }
                                let frag = if site == "...F" { format!(" fragment F on Query {{ ... on Query {{ f({}{}: $x) }} }}", pre, kl) } else { String::new() };
                                let doc = format!("query ($x: {}{}) {{ {} }}{}", show(vt), dtext, site, frag);
                                let spec = allowed(vt, l, nn, *ld);
                                let spec_no_loc = allowed(vt, l, nn, false);
                                crate::valcases::rules_case_meta(&si, &doc, &rules, &tmp,
                                    json!({"vip_allowed": spec, "vip_allowed_ignoring_location_default": spec_no_loc, "loc_default": ld, "var": show(vt), "loc": show(l), "kv": kv}), out);
                            }
                            i += 1;
                        }
                    }
                }
            }
            // ---- one variable used at two locations of different types within one scope (operation body / fragment)
            let mut j = 0usize;
            for vt in tys.iter().take(7) { for kl1 in 0..7usize { for kl2 in 0..7usize {
                for tpl in 0..3usize {
                    j += 1;
                    if !thorough && j % 3 != 0 { continue; }
                    let doc = match tpl {
                        0 => format!("query ($x: {}) {{ f(a{}: $x, a{}: $x) }}", show(vt), kl1, kl2),
                        1 => format!("query ($x: {}) {{ p{}(v: $x) w {{ p{}(v: $x) }} }}", show(vt), kl1, kl2),
                        _ => format!("query ($x: {}) {{ ...F }} fragment F on Query {{ w {{ p{}(v: $x) }} p{}(v: $x) }}", show(vt), kl1, kl2),
                    };
                    crate::valcases::rules_case(&si, &doc, &rules, &tmp, out);
                }
            } } }
            // ---- several operations declare $x with different types and share the fragments that use it: a usage is judged against
            //      each operation's own declaration, whatever was walked for the operations before it
            {
                let vts = ["Int!", "Int", "String!", "[Int]"];
                for a in vts.iter() { for b in vts.iter() { for c in ["", "Int!", "Int", "String"].iter() { for shape in 0..3usize {
                    let third = if c.is_empty() { String::new() } else { format!(" query C($x: {}) {{ w {{ ...G }} }}", c) };
                    let frs = match shape {
                        0 => "fragment F on Query { w { ...G } } fragment G on W { p1(v: $x) }",
                        1 => "fragment F on Query { p1(v: $x) w { ...G } } fragment G on W { w { p1(v: $x) } }",
                        _ => "fragment F on Query { ... on Query { w { ...G } } } fragment G on W { p1(v: $x) ...H } fragment H on W { w { p1(v: $x) } }",
                    };
                    let doc = format!("query A($x: {}) {{ ...F }} query B($x: {}) {{ ...F }}{} {}", a, b, third, frs);
                    crate::valcases::rules_case(&si, &doc, &rules, &tmp, out);
                } } } }
            }
            // ---- definitions and uses across operations and fragments
            let defs = |m: usize| -> String {
                let v: Vec<&str> = [(1, "$x: Int"), (2, "$y: Int")].iter().filter(|(b, _)| m & b != 0).map(|(_, t)| *t).collect();
                if v.is_empty() { String::new() } else { format!("({})", v.join(", ")) }
            };
            let uses = |m: usize| -> String { format!("plain{}", match m { 0 => "", 1 => "(i: $x)", 2 => "(l: [1, $y])", _ => "(i: $x, inp: {req: 1, nest: {req: $y}})" }) };
            let spreads = |m: usize| -> String { format!("{}{}", if m & 1 != 0 { " ...F" } else { "" }, if m & 2 != 0 { " w { ... on W { ...G } }" } else { "" }) };
            let op2s = ["", " query B { plain }", " query B($x: Int) { ...F }", " query A { plain(i: $x) }", " query A($x: Int, $y: Int) { plain }", " { plain(i: $y) }", " query B($y: Int) { w { ...G } plain @skip(if: $y) }"];
            for d in 0..4usize { for u in 0..4usize { for sp in 0..4usize { for (k2, op2) in op2s.iter().enumerate() { for fv in 0..2usize {
                if !thorough && (d + u + sp + k2 + fv) % 2 == 1 { continue; }
                let f = if fv == 0 { "fragment F on Query { w { g(a0: $x) } }" } else { "fragment F on Query { plain(i: $x) w { ...G } }" };
                let doc = format!("query A{} {{ {}{} }}{} {} fragment G on W {{ g(l0: [$y]) }} fragment H on Query {{ plain(i: $z) }}", defs(d), uses(u), spreads(sp), op2, f);
                crate::valcases::rules_case(&si, &doc, &rules, &tmp, out);
            } } } } }
            // ---- several operations entering one fragment graph (cycles included) at different fragments: what an operation uses is
            //      what is reachable from ITS spreads, whatever was computed for the operations before it
            {
                let mut c = 0usize;
                for adj in 0..512u32 {
                    for variant in 0..6usize {
                        c += 1;
                        if !thorough && (adj as usize + adj as usize / 6 + variant) % 3 != 0 { continue; }   // quick: two variants per graph, rotating
                        let mut frs = String::new();
                        for j in 0..3usize {
                            let mut body = format!("plain(i: $v{})", j);
                            for k in 0..3usize { if adj >> (3 * j + k) & 1 == 1 {
                                body.push_str(&if (j + k + variant) % 2 == 0 { format!(" ...F{}", k) } else { format!(" w {{ w {{ ... on W {{ ...G{} }} }} }}", k) });
                            } }
                            frs.push_str(&format!(" fragment F{} on Query {{ {} }} fragment G{} on W {{ g(a0: $v{}) ... on W {{ w {{ ...H{} }} }} }} fragment H{} on W {{ g(a0: $v{}){} }}",
                                j, body, j, j, j, j, j, (0..3usize).filter(|k| adj >> (3 * j + k) & 1 == 1 && (j + k + variant) % 2 == 1).map(|k| format!(" ...G{}", k)).collect::<String>()));
                        }
                        // variants 4, 5: each operation defines what its own entry fragment uses (A: everything), so an undefined
                        // variable of B or C is one reached through the graph only - the document's only violation
                        let all = "($v0: Int, $v1: Int, $v2: Int)";
                        let (da, db, dc) = match variant { 0 | 1 => ("", "", ""), 2 | 3 => (all, all, all), _ => (all, "($v1: Int)", "($v2: Int)") };
                        let ops = match variant % 2 {
                            0 => format!("query A{} {{ ...F0 }} query B{} {{ ...F1 }} query C{} {{ ...F2 }}", da, db, dc),
                            _ => format!("query C{} {{ ...F2 }} query A{} {{ {} }} query B{} {{ ...F1 }}", dc, da, if variant == 5 { "...F0" } else { "w { ...G0 }" }, db),
                        };
                        crate::valcases::rules_case(&si, &format!("{}{}", ops, frs), &rules, &tmp, out);
                    }
                }
            }
            // ---- duplicate variable names
            for len in 1..=3usize { for code in 0..(1usize << len) { for second in 0..3usize {
                let vs: Vec<String> = (0..len).map(|k| format!("${}: {}", if code >> k & 1 == 1 { "x" } else { "y" }, if k % 2 == 0 { "Int" } else { "String" })).collect();
                let op2 = match second { 0 => "", 1 => " query B($x: Int, $y: Int) { plain(i: $x, l: [$y]) }", _ => " query B($x: Int, $x: Int) { plain(i: $x) }" };
                crate::valcases::rules_case(&si, &format!("query A({}) {{ plain(i: $x, l: [$y]) }}{}", vs.join(", "), op2), &rules, &tmp, out);
            } } }
            // ---- variable types of every kind
            for n in ["Int", "Custom", "Color", "In", "Query", "W", "Node", "U", "Unknown", "__Type", "Box0"] {
                for w in ["{}", "{}!", "[{}]", "[{}!]!", "[[{}]]"] {
                    crate::valcases::rules_case(&si, &format!("query ($v: {}) {{ plain }}", w.replace("{}", n)), &rules, &tmp, out);
                    crate::valcases::rules_case(&si, &format!("query ($v: {}, $u: Int) {{ plain(i: $u) }} query B($w: {}) {{ plain }}", w.replace("{}", n), w.replace("{}", n)), &rules, &tmp, out);
                }
            }
            for si in pool() {
                out.schema(&si);
                for t in corpus_docs(corpus, &si.name) { crate::valcases::rules_case(&si, &t, &rules, &tmp, out); }
                for t in random_docs(&si, &mut rng, 150 * scale, 5) { crate::valcases::rules_case(&si, &t, &rules, &tmp, out); }
            }
        }
        "c08" => {
            let tmp = tmpdir();
            let rules = ["ValuesOfCorrectType"];
            // expected types: 8 base types x 11 wrapper shapes (<= 3 wrappers, no `!!`)
            let bases = ["Int", "Float", "String", "Boolean", "ID", "Custom", "Color", "In"];
            let shapes = ["", "L", "N", "LL", "LN", "NL", "LLL", "LLN", "LNL", "NLL", "NLN"];
            fn wrap(base: &str, shape: &str) -> String {
                // shape read outside-in: L = list, N = non-null
                match shape.chars().next() {
                    None => base.to_string(),
                    Some('L') => format!("[{}]", wrap(base, &shape[1..])),
                    Some(_) => format!("{}!", wrap(base, &shape[1..])),
                }
            }
            let mut tys: Vec<String> = vec![];
            for b in bases.iter() { for sh in shapes.iter() { tys.push(wrap(b, sh)); } }
            let args = |pre: &str, f: &dyn Fn(usize, &str) -> String| tys.iter().enumerate().map(|(k, t)| format!("{}{}: {}", pre, k, f(k, t))).collect::<Vec<_>>().join(", ");
            let whole_plan = crate::valcases::FULL_MODE.load(std::sync::atomic::Ordering::Relaxed) > 0;
            fn dflt(t: &str) -> String {
                let t = t.trim_end_matches('!');
                if let Some(inner) = t.strip_prefix('[') { return format!("[{}]", dflt(&inner[..inner.len() - 1])); }
                match t { "Int" => "1".into(), "Float" => "1.5".into(), "String" => "\"s\"".into(), "Boolean" => "true".into(), "ID" => "\"i\"".into(),
                          "Custom" => "1".into(), "Color" => "RED".into(), _ => "{req: 1}".into() }
            }
            let plain = args("a", &|_, t| if whole_plan && t.ends_with('!') { format!("{} = {}", t, dflt(t)) } else { t.to_string() });
            let listed = args("l", &|_, t| format!("[{}]", t));
            let boxed = args("box", &|k, _| format!("Box{}", k));
            let boxes = tys.iter().enumerate().map(|(k, t)| format!("input Box{} {{ v: {} }}", k, t)).collect::<Vec<_>>().join("\n");
            let sdl = format!("{}\nscalar Custom\nenum Color {{ RED GREEN }}\ninput In {{ req: Int!  opt: String  lst: [Int!]  nest: In  dflt: Int! = 3  col: Color  cust: Custom }}\n{}\ntype Query {{ f({}, {}, {}): Int  w: W }}\ntype W {{ g({}): Int }}\ndirective @d({}) on FIELD | QUERY\n",
                schemas::PRELUDE, boxes, plain, listed, boxed, plain, plain);
            let si = gen::SchemaInfo::new("vals", &sdl);
            out.schema(&si);
            // literals
            let l1: Vec<String> = ["1", "2147483648", "-2147483649", "9007199254740993", "1234567890123456789", "1.5", "\"s\"", "true", "null", "RED", "PURPLE", "$v"].iter().map(|x| x.to_string()).collect();
            let red: Vec<String> = ["1", "\"s\"", "null", "RED", "$v"].iter().map(|x| x.to_string()).collect();
            let mut l2: Vec<String> = vec!["[]".into(), "{}".into(), "{req: 1, zz: 1}".into(), "{opt: \"s\"}".into(), "{zz: 1}".into()];
            for x in &l1 { l2.push(format!("[{}]", x)); }
            for x in &red { for y in &red { l2.push(format!("[{}, {}]", x, y)); } }
            for key in ["req", "opt", "lst", "nest", "col", "cust", "dflt"] {
                for x in &l1 { l2.push(if key == "req" { format!("{{req: {}}}", x) } else { format!("{{req: 1, {}: {}}}", key, x) }); }
            }
            let mut l3: Vec<String> = vec!["[[]]".into(), "[[], [1]]".into(), "[{}]".into(), "[[[]]]".into()];
            for x in &l1 {
                l3.push(format!("[[{}]]", x)); l3.push(format!("[[[{}]]]", x)); l3.push(format!("[1, [{}]]", x));
                l3.push(format!("[{{req: {}}}]", x)); l3.push(format!("{{req: 1, nest: {{req: {}}}}}", x));
                l3.push(format!("{{req: 1, lst: [{}]}}", x)); l3.push(format!("{{req: 1, lst: [1, {}]}}", x));
                l3.push(format!("{{req: 1, nest: {{req: 1, nest: {{req: {}}}}}}}", x));
                l3.push(format!("{{req: 1, nest: {{req: 1, lst: [{}]}}}}", x));
                l3.push(format!("[[1], [{}]]", x)); l3.push(format!("[{{req: 1, lst: [{}]}}]", x));
                l3.push(format!("{{req: 1, cust: [{{a: {}}}]}}", x));
            }
            let lits: Vec<String> = l1.iter().chain(l2.iter()).chain(l3.iter()).cloned().collect();
            let mut i = 0usize;
            for (k, t) in tys.iter().enumerate() {
                for lit in &lits {
                    let docs = [
                        format!("{{ f(a{}: {}) }}", k, lit),
                        format!("{{ f @d(a{}: {}) }}", k, lit),
                        format!("query ($x: {} = {}) {{ f }}", t, lit),
                        format!("{{ w {{ g(a{}: {}) }} }}", k, lit),
                        format!("{{ f(box{}: {{v: {}}}) }}", k, lit),
                        format!("{{ f(l{}: [{}]) }}", k, lit),
                        format!("{{ ... {{ f(a{}: {}) }} }}", k, lit),
                        format!("{{ w {{ ... @include(if: true) {{ ... {{ g(a{}: {}) }} }} }} }}", k, lit),
                    ];
                    for (p, d) in docs.iter().enumerate() {
                        if thorough || p == i % docs.len() || (p == 0 && shapes[k % shapes.len()].len() <= 1) { crate::valcases::rules_case(&si, d, &rules, &tmp, out); }
                    }
                    i += 1;
                }
            }
            // two literals in one document at positions of one named type: each is judged on its own, whatever was judged before
            {
                let small = ["1", "1.0", "1.5", "\"1\"", "\"s\"", "true", "RED", "null", "7", "7.0"];
                for (k, t) in tys.iter().enumerate() {
                    if shapes[k % shapes.len()].len() > 1 { continue; }
                    for x in small.iter() { for y in small.iter() {
                        if x == y { continue; }
                        crate::valcases::rules_case(&si, &format!("{{ p: f(a{}: {}) q: f(a{}: {}) }}", k, x, k, y), &rules, &tmp, out);
                        if thorough || shapes[k % shapes.len()] == "L" { crate::valcases::rules_case(&si, &format!("{{ f(l{}: [{}, {}]) }}", k, x, y), &rules, &tmp, out); }
                    } }
                }
            }
            // unknown owners: nothing is expected, nothing is reported
            for lit in &lits { crate::valcases::rules_case(&si, &format!("{{ f(zz: {}) nope(a0: {}) @nope(a0: {}) }}", lit, lit, lit), &rules, &tmp, out); }
            for si in pool() {
                out.schema(&si);
                for t in corpus_docs(corpus, &si.name) { crate::valcases::rules_case(&si, &t, &rules, &tmp, out); }
                for t in random_docs(&si, &mut rng, 100 * scale, 5) { crate::valcases::rules_case(&si, &t, &rules, &tmp, out); }
            }
        }
        "c09" => {
            let tmp = tmpdir();
            let rules = ["KnownArgumentNames", "UniqueArgumentNames", "ProvidedRequiredArguments"];
            let si = gen::SchemaInfo::new("args", &format!("{}{}", schemas::PRELUDE, schemas::ARGS));
            out.schema(&si);
            fn lists(names: &[&str], maxlen: usize) -> Vec<String> {
                let mut out = vec![String::new()];
                let mut cur: Vec<Vec<&str>> = vec![vec![]];
                for _ in 0..maxlen {
                    let mut next = vec![];
                    for l in &cur { for n in names { let mut m = l.clone(); m.push(n); next.push(m); } }
                    for l in &next { out.push(format!("({})", l.iter().map(|n| format!("{}: 1", n)).collect::<Vec<_>>().join(", "))); }
                    cur = next;
                }
                out
            }
            let maxlen = if thorough { 4 } else { 3 };
            let fl = lists(&["i", "r", "d", "zz"], maxlen);
            let dl = lists(&["x", "y", "zz"], maxlen);
            for (k, a) in fl.iter().enumerate() {
                let da = &dl[k % dl.len()];
                let docs = [
                    format!("{{ f{} }}", a), format!("{{ w {{ g{} }} }}", a), format!("{{ j {{ g{} }} }}", a),
                    format!("{{ nope {{ g{} }} }}", a), format!("{{ w {{ nope{} }} }}", a), format!("{{ f{} @nope(zz: 1) }}", a),
                    format!("{{ w @dir{} {{ g{} }} }}", da, a), format!("{{ ... @dir{} {{ f{} }} }}", da, a),
                    format!("{{ f{} @noargs(zz: 1) @dir{} }}", a, da), format!("{{ w {{ w {{ g{} j {{ g{} }} }} }} }}", a, da.replace("x", "i").replace("y", "r")),
                ];
                for t in docs.iter() { crate::valcases::rules_case(&si, t, &rules, &tmp, out); }
            }
            for a in dl.iter() {
                for t in [format!("{{ plain @tsOnly{} }}", a), format!("query @tsOnly{} {{ plain @mixed{} }}", a, a.replace("x", "y")), format!("{{ ... @tsOnly{} {{ plain }} ...F @mixed }} fragment F on Query @tsOnly {{ plain }}", a)] {
                    crate::valcases::rules_case(&si, &t, &rules, &tmp, out);
                }
                let docs = [
                    format!("{{ f(i: 1, r: 1) @dir{} }}", a), format!("query @dir{} {{ plain }}", a),
                    format!("{{ ...F @dir{} }} fragment F on Query @dir{} {{ plain }}", a, a),
                    format!("{{ plain @dir{} @dir(y: 1) @dir{} }}", a, a), format!("{{ nope @dir{} }}", a),
                ];
                for t in docs.iter() { crate::valcases::rules_case(&si, t, &rules, &tmp, out); }
            }
            for si in pool() {
                out.schema(&si);
                for t in corpus_docs(corpus, &si.name) { crate::valcases::rules_case(&si, &t, &rules, &tmp, out); }
                for t in random_docs(&si, &mut rng, 100 * scale, 5) { crate::valcases::rules_case(&si, &t, &rules, &tmp, out); }
            }
            for i in 0..(8 * scale) {
                let si = gen::SchemaInfo::new(&format!("random{}", i), &gen::random_schema(&mut rng));
                out.schema(&si);
                for t in random_docs(&si, &mut rng, 50, 5) { crate::valcases::rules_case(&si, &t, &rules, &tmp, out); }
            }
        }
        "collect" => {
            let si = gen::SchemaInfo::new("tiny", &format!("{}{}", schemas::PRELUDE, schemas::TINY));
            out.schema(&si);
            let budget = if thorough { 4 } else { 3 };
            let bodies = crate::enumgen::selsets(&["a", "k: a", "a: t", "t"], &["", "T", "I", "U", "V", "Zed"], &["F", "G", "Nope"], budget, 3);
            for b in bodies.iter() {
                let text = format!("query {} fragment F on T {{ a ...G }} fragment G on I {{ k: a ...F ...Nope ...H }} fragment H on V {{ a v {{ ...H }} }}", b);
                crate::collectcases::collect_case(&si, &text, out);
            }
            // chains of named fragments far longer than any selection set can nest: the field at the end of the chain is collected
            {
                let si = gen::SchemaInfo::new("chain", &format!("{}{}", schemas::PRELUDE, "type Query { a: Int  b: Int }"));
                out.schema(&si);
                let lens: &[usize] = if thorough { &[130, 300, 1100, 2100, 4200] } else { &[130, 1100] };
                for &n in lens {
                    let mut t = String::from("{ ...F0 b }");
                    for j in 0..n { t.push_str(&format!(" fragment F{} on Query {{ {} }}", j, if j + 1 < n { format!("...F{}", j + 1) } else { "a k: b".to_string() })); }
                    crate::collectcases::collect_case_sets(&si, &t, false, out);
                }
            }
            for si in pool() {
                out.schema(&si);
                for t in corpus_docs(corpus, &si.name) { crate::collectcases::collect_case(&si, &t, out); }
                for t in random_docs(&si, &mut rng, 80 * scale, 4) { crate::collectcases::collect_case(&si, &t, out); }
            }
            for i in 0..(6 * scale) {
                let si = gen::SchemaInfo::new(&format!("random{}", i), &gen::random_schema(&mut rng));
                out.schema(&si);
                for t in random_docs(&si, &mut rng, 40, 4) { crate::collectcases::collect_case(&si, &t, out); }
            }
        }
        "c11" => {
            let tmp = tmpdir();
            let rules = ["UniqueOperationNames", "LoneAnonymousOperation", "SingleFieldSubscriptions"];
            let implicit = gen::SchemaInfo::new("implicit-roots", &format!("{}{}", schemas::PRELUDE, "type Query { a: Int } type Mutation { m: Int } type Subscription { s1: Int s2: Int }"));
            let explicit = gen::SchemaInfo::new("explicit-roots", &format!("{}{}", schemas::PRELUDE, "schema { query: Q mutation: M subscription: Subscription } type Q { a: Int } type M { m: Int } type Subscription { s1: Int s2: Int } type Query { zz: Int }"));
            let nosub = gen::SchemaInfo::new("no-subscription", &format!("{}{}", schemas::PRELUDE, "schema { query: Query } type Query { a: Int }"));
            let ops = ["{ a }", "query { a }", "query A { a }", "query B { a }", "mutation A { m }", "mutation { m }", "subscription A { s1 }", "subscription { s1 s2 }"];
            let maxn = if thorough { 4 } else { 3 };
            let partial = gen::SchemaInfo::new("partial-roots", &format!("{}{}", schemas::PRELUDE, "schema { query: Query } type Query { a: Int } type Mutation { m: Int } type Subscription { s1: Int s2: Int }"));
            let decoy = gen::SchemaInfo::new("decoy-roots", &format!("{}{}", schemas::PRELUDE, "schema { query: Q subscription: Events } type Q { a: Int } type Events { s1: Int s2: Int } type Subscription { s1: Int s2: Int s3: Int } type Query { zz: Int }"));
            for si in [&implicit, &explicit, &nosub, &partial, &decoy] {
                out.schema(si);
                let mut cur: Vec<Vec<&str>> = vec![vec![]];
                for _ in 0..maxn {
                    let mut next = vec![];
                    for l in &cur { for o in ops.iter() { let mut m = l.clone(); m.push(*o); next.push(m); } }
                    for l in &next { crate::valcases::rules_case(si, &l.join(" "), &rules, &tmp, out); }
                    cur = next;
                }
                let budget = if thorough { 4 } else { 3 };
                let bodies = crate::enumgen::selsets(&["s1", "s2", "k: s1", "s1: s2", "__typename", "k: __typename", "s1: __typename"], &["", "Subscription", "Query", "Zed"], &["F", "G"], budget, 3);
                for (i, b) in bodies.iter().enumerate() {
                    let name = if i % 2 == 0 { " Sub" } else { "" };
                    let text = format!("subscription{} {} fragment F on Subscription {{ s1 ...G }} fragment G on Subscription {{ k: s2 ...F }}", name, b);
                    crate::valcases::rules_case(si, &text, &rules, &tmp, out);
                }
            }
            // a subscription root that implements an interface and is a member of a union: fragments on those apply to it
            {
                let si = gen::SchemaInfo::new("abstract-root", &format!("{}{}", schemas::PRELUDE, "interface Feed { s1: Int s2: Int } type Other implements Feed { s1: Int s2: Int } union SubU = Subscription | Other type Query { a: Int } type Subscription implements Feed { s1: Int s2: Int }"));
                out.schema(&si);
                let budget = if thorough { 4 } else { 3 };
                let bodies = crate::enumgen::selsets(&["s1", "s2", "k: s1", "__typename"], &["", "Feed", "SubU", "Other", "Subscription"], &["F", "G"], budget, 3);
                for (i, b) in bodies.iter().enumerate() {
                    let text = match i % 3 {
                        0 => format!("subscription Sub {} fragment F on Feed {{ s1 ...G }} fragment G on SubU {{ ... on Subscription {{ k: s2 }} ...F }}", b),
                        1 => format!("subscription {} fragment F on SubU {{ ... on Feed {{ s2 }} }} fragment G on Other {{ k: s1 }}", b),
                        _ => format!("subscription {} fragment F on Feed {{ __typename }} fragment G on Feed {{ s1 }}", b),
                    };
                    crate::valcases::rules_case(&si, &text, &rules, &tmp, out);
                }
            }
            for si in pool() {
                out.schema(&si);
                for t in corpus_docs(corpus, &si.name) { crate::valcases::rules_case(&si, &t, &rules, &tmp, out); }
                for t in random_docs(&si, &mut rng, 100 * scale, 4) { crate::valcases::rules_case(&si, &t, &rules, &tmp, out); }
            }
            for i in 0..(8 * scale) {
                let si = gen::SchemaInfo::new(&format!("random{}", i), &gen::random_schema(&mut rng));
                out.schema(&si);
                for t in random_docs(&si, &mut rng, 50, 4) { crate::valcases::rules_case(&si, &t, &rules, &tmp, out); }
            }
        }
        "transform" => {
            // marker names first, so their ids are stable
            for h in crate::transform::HOOKS.iter() { id(&format!("R_{}", h)); }
            // transform_list: all Keep/Replace patterns over argument lists of length <= 6 (value hook on Int n selects by n)
            let none: [Option<crate::transform::Probe>; 11] = Default::default();
            for len in 0..=6usize {
                for mask in 0..(1usize << len) {
                    // argument i has value 0 (kept) or 1 (replaced): value hook hits key = n + 10 with modulus 2, residue 1
                    let args: Vec<String> = (0..len).map(|i| format!("a{}: {}", i, (mask >> i) & 1)).collect();
                    let text = if len == 0 { "{ f }".to_string() } else { format!("{{ f({}) }}", args.join(", ")) };
                    let mut h = none.clone();
                    h[9] = Some(crate::transform::Probe { modulus: 2, residue: 1, marker: "R_value".into(), nullify: false });
                    crate::transform::transform_case(&text, &h, out);
                }
            }
            // a value hook that answers `null`: in argument values, list items, object fields, variable defaults (a replacement,
            // not an absence) - every value of the document is hit (modulus 1)
            for text in ["query ($a: Int = 1, $b: [Int] = [1, 2], $c: In = {x: 1}, $d: Int, $e: Int = null) { f(x: $a, y: [1, null], z: {k: 2}) @skip(if: true) }",
                         "query Q($v: String = \"s\") { a } mutation M($v: Boolean = true, $w: E = X) { m(i: $v) }", "fragment F on T { g(i: 3) @d(a: [[1]], b: {c: {d: E}}) }"] {
                for (m, r) in [(1usize, 0usize), (2, 0), (2, 1), (3, 1)] {
                    let mut h = none.clone();
                    h[9] = Some(crate::transform::Probe { modulus: m, residue: r, marker: "R_value".into(), nullify: true });
                    crate::transform::transform_case(text, &h, out);
                    h[10] = Some(crate::transform::Probe { modulus: 1, residue: 0, marker: "R_varDef".into(), nullify: false });
                    crate::transform::transform_case(text, &h, out);
                }
            }
            for si in pool() {
                for t in corpus_docs(corpus, &si.name) { crate::transform::transform_case(&t, &none, out); }
                for t in random_docs(&si, &mut rng, 120 * scale, 4) {
                    crate::transform::transform_case(&t, &none, out);
                    for i in 0..11 {
                        if rng.pct(35) {
                            let mut h = none.clone();
                            let m = rng.range(1, 3);
                            h[i] = Some(crate::transform::Probe { modulus: m, residue: rng.below(m), marker: format!("R_{}", crate::transform::HOOKS[i]), nullify: i == 9 && rng.pct(40) });
                            crate::transform::transform_case(&t, &h, out);
                        }
                    }
                    let h = crate::transform::random_hooks(&mut rng);
                    crate::transform::transform_case(&t, &h, out);
                }
            }
        }
        "introspect" => {
            let mut sis = pool();
            for i in 0..(4 * scale) { sis.push(gen::SchemaInfo::new(&format!("random{}", i), &gen::random_schema(&mut rng))); }
            for si in &sis { crate::introspect::schema_cases(si, &mut rng, thorough, out); }
            // the bundled real-world results
            let dir = "/repo/src/introspection/test_files";
            let mut files: Vec<_> = std::fs::read_dir(dir).map(|rd| rd.filter_map(|e| e.ok()).map(|e| e.path()).collect()).unwrap_or_default();
            files.sort();
            for f in files {
                if let Ok(t) = std::fs::read_to_string(&f) {
                    if !thorough && t.len() > 1_000_000 { continue; }
                    crate::introspect::introspect_case(&format!("bundled:{}", f.file_name().unwrap().to_string_lossy()), &t, 30, &mut rng, out);
                }
            }
            for (k, t) in ["", "null", "[]", "{}", "{\"__schema\": null}", "{\"__schema\": {}}", "{\"__schema\": {\"queryType\": {\"name\": \"Q\"}, \"types\": [], \"directives\": []}}", "\"x\"", "{\"__schema\": "].iter().enumerate() {
                crate::introspect::introspect_case(&format!("tiny{}", k), t, 50, &mut rng, out);
            }
        }
        _ => panic!("unknown kind {}", kind),
    }
}
