//! Per-kind case generation: every case line carries the input (wire AST + source text) and the
//! observation made on the real implementation (`impl`).
use crate::{enc, gen, recorder, rng::Rng, schemas, Out};
use graphql_tools::ast::{visit_document, OperationVisitorContext};
use graphql_tools::static_graphql::{query as q, schema as s};
use serde_json::{json, Value as J};

/// run the real visitor with the recorder; None if it panicked
pub fn real_trace(schema: &s::Document, doc: &q::Document) -> Option<(Vec<String>, String)> {
    std::panic::catch_unwind(std::panic::AssertUnwindSafe(|| {
        let mut ctx = OperationVisitorContext::new(doc, schema);
        let mut rec = recorder::Recorder::default();
        visit_document(&mut rec, doc, &mut ctx, &mut ());
        let fin = recorder::snap(&ctx);
        (rec.lines, fin)
    })).ok()
}

pub fn pool() -> Vec<gen::SchemaInfo> {
    schemas::pool().into_iter().map(|(n, t)| gen::SchemaInfo::new(n, &t)).collect()
}

/// corpus documents: files <corpus>/<schema-name>/*.graphql
pub fn corpus_docs(corpus: &str, schema_name: &str) -> Vec<String> {
    let mut v = vec![];
    if let Ok(rd) = std::fs::read_dir(format!("{}/{}", corpus, schema_name)) {
        let mut paths: Vec<_> = rd.filter_map(|e| e.ok()).map(|e| e.path()).filter(|p| p.extension().map(|x| x == "graphql").unwrap_or(false)).collect();
        paths.sort();
        for p in paths { if let Ok(t) = std::fs::read_to_string(&p) { v.push(t); } }
    }
    v
}

pub fn random_docs(si: &gen::SchemaInfo, rng: &mut Rng, n: usize, max_depth: usize) -> Vec<String> {
    (0..n).map(|i| {
        let noise = [0, 0, 5, 25][i % 4];
        let mut g = gen::DocGen::new(si, rng.fork(), noise, max_depth);
        g.document()
    }).collect()
}

fn trace_case(si: &gen::SchemaInfo, text: &str, out: &mut Out) {
    let doc = match gen::parse_doc(text) { Some(d) => d, None => return };
    let r = real_trace(&si.doc, &doc);
    let (lines, fin, outcome) = match r { Some(x) => (Some(x.0), Some(x.1), "ok"), None => (None, None, "panic") };
    out.push(json!({"op": "trace", "src": text, "doc": enc::document(&doc), "impl": {"outcome": outcome, "lines": lines, "final": fin}}));
}

pub fn one_case(kind: &str, si: &gen::SchemaInfo, input: &J, out: &mut Out) {
    match kind {
        "trace" => trace_case(si, input.as_str().unwrap(), out),
        _ => panic!("unknown kind {}", kind),
    }
}

pub fn generate(kind: &str, thorough: bool, seed: u64, corpus: &str, out: &mut Out) {
    let mut rng = Rng::new(seed);
    let scale = if thorough { 12 } else { 1 };
    match kind {
        "trace" => {
            for si in pool() {
                out.schema(&si);
                for t in corpus_docs(corpus, &si.name) { trace_case(&si, &t, out); }
                for t in random_docs(&si, &mut rng, 150 * scale, 4) { trace_case(&si, &t, out); }
            }
        }
        _ => panic!("unknown kind {}", kind),
    }
}
