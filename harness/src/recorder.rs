//! A recording `OperationVisitor`: one line per callback = event with payload + the six
//! context answers (+ stack depths through the cfg-guarded hook) sampled inside the callback.
use crate::enc::*;
use crate::intern::id;
use graphql_tools::ast::{OperationVisitor, OperationVisitorContext};
use graphql_tools::static_graphql::query::*;
use std::collections::BTreeMap;

#[derive(Default)]
pub struct Recorder {
    pub lines: Vec<String>,
}

pub fn snap(ctx: &OperationVisitorContext) -> String {
    let o = |x: Option<String>| x.unwrap_or("-".to_string());
    #[cfg(graphql_tools_rs_verif)]
    let d = { let d = ctx.verif_stack_depths(); format!("{},{},{},{},{},{}", d[0], d[1], d[2], d[3], d[4], d[5]) };
    #[cfg(not(graphql_tools_rs_verif))]
    let d = "?".to_string();
    format!(
        "cur={} lit={} par={} fld={} inp={} ilit={} | d={}",
        o(ctx.current_type().map(r_type_def)),
        o(ctx.current_type_literal().map(r_ty)),
        o(ctx.current_parent_type().map(r_type_def)),
        o(ctx.current_field().map(|f| id(&f.name).to_string())),
        o(ctx.current_input_type().map(r_type_def)),
        o(ctx.current_input_type_literal().map(r_ty)),
        d
    )
}

impl Recorder {
    fn rec(&mut self, ctx: &OperationVisitorContext, ev: String) {
        self.lines.push(format!("{} | {}", ev, snap(ctx)));
    }
}

fn r_op(o: &OperationDefinition) -> String {
    match o {
        OperationDefinition::SelectionSet(_) => "op:ss".to_string(),
        OperationDefinition::Query(x) => format!("op:q:{}:{}", r_pos(&x.position), r_opt_name(x.name.as_ref())),
        OperationDefinition::Mutation(x) => format!("op:m:{}:{}", r_pos(&x.position), r_opt_name(x.name.as_ref())),
        OperationDefinition::Subscription(x) => format!("op:sub:{}:{}", r_pos(&x.position), r_opt_name(x.name.as_ref())),
    }
}
fn r_frag(f: &FragmentDefinition) -> String {
    let TypeCondition::On(tc) = &f.type_condition;
    format!("frag:{}:{}:{}", r_pos(&f.position), id(&f.name), id(tc))
}
fn r_var(v: &VariableDefinition) -> String { format!("var:{}:{}:{}", r_pos(&v.position), id(&v.name), r_ty(&v.var_type)) }
fn r_dir(d: &Directive) -> String { format!("dir:{}:{}", r_pos(&d.position), id(&d.name)) }
fn r_field(f: &Field) -> String { format!("field:{}:{}:{}", r_pos(&f.position), r_opt_name(f.alias.as_ref()), id(&f.name)) }
fn r_spread(f: &FragmentSpread) -> String { format!("spread:{}:{}", r_pos(&f.position), id(&f.fragment_name)) }
fn r_inline(f: &InlineFragment) -> String {
    format!("inline:{}:{}", r_pos(&f.position), r_opt_name(f.type_condition.as_ref().map(|TypeCondition::On(n)| n)))
}

type UC = ();
type Ctx<'a> = OperationVisitorContext<'a>;

impl<'a> OperationVisitor<'a, UC> for Recorder {
    fn enter_document(&mut self, c: &mut Ctx<'a>, _: &mut UC, _: &'a Document) { self.rec(c, "+doc".into()) }
    fn leave_document(&mut self, c: &mut Ctx<'a>, _: &mut UC, _: &Document) { self.rec(c, "-doc".into()) }
    fn enter_operation_definition(&mut self, c: &mut Ctx<'a>, _: &mut UC, n: &'a OperationDefinition) { self.rec(c, format!("+{}", r_op(n))) }
    fn leave_operation_definition(&mut self, c: &mut Ctx<'a>, _: &mut UC, n: &OperationDefinition) { self.rec(c, format!("-{}", r_op(n))) }
    fn enter_fragment_definition(&mut self, c: &mut Ctx<'a>, _: &mut UC, n: &'a FragmentDefinition) { self.rec(c, format!("+{}", r_frag(n))) }
    fn leave_fragment_definition(&mut self, c: &mut Ctx<'a>, _: &mut UC, n: &FragmentDefinition) { self.rec(c, format!("-{}", r_frag(n))) }
    fn enter_variable_definition(&mut self, c: &mut Ctx<'a>, _: &mut UC, n: &'a VariableDefinition) { self.rec(c, format!("+{}", r_var(n))) }
    fn leave_variable_definition(&mut self, c: &mut Ctx<'a>, _: &mut UC, n: &VariableDefinition) { self.rec(c, format!("-{}", r_var(n))) }
    fn enter_directive(&mut self, c: &mut Ctx<'a>, _: &mut UC, n: &Directive) { self.rec(c, format!("+{}", r_dir(n))) }
    fn leave_directive(&mut self, c: &mut Ctx<'a>, _: &mut UC, n: &Directive) { self.rec(c, format!("-{}", r_dir(n))) }
    fn enter_argument(&mut self, c: &mut Ctx<'a>, _: &mut UC, n: &'a (String, Value)) { self.rec(c, format!("+arg:{}={}", id(&n.0), r_value(&n.1))) }
    fn leave_argument(&mut self, c: &mut Ctx<'a>, _: &mut UC, n: &(String, Value)) { self.rec(c, format!("-arg:{}={}", id(&n.0), r_value(&n.1))) }
    fn enter_selection_set(&mut self, c: &mut Ctx<'a>, _: &mut UC, n: &'a SelectionSet) { self.rec(c, format!("+ss:{}", n.items.len())) }
    fn leave_selection_set(&mut self, c: &mut Ctx<'a>, _: &mut UC, n: &SelectionSet) { self.rec(c, format!("-ss:{}", n.items.len())) }
    fn enter_field(&mut self, c: &mut Ctx<'a>, _: &mut UC, n: &Field) { self.rec(c, format!("+{}", r_field(n))) }
    fn leave_field(&mut self, c: &mut Ctx<'a>, _: &mut UC, n: &Field) { self.rec(c, format!("-{}", r_field(n))) }
    fn enter_fragment_spread(&mut self, c: &mut Ctx<'a>, _: &mut UC, n: &'a FragmentSpread) { self.rec(c, format!("+{}", r_spread(n))) }
    fn leave_fragment_spread(&mut self, c: &mut Ctx<'a>, _: &mut UC, n: &FragmentSpread) { self.rec(c, format!("-{}", r_spread(n))) }
    fn enter_inline_fragment(&mut self, c: &mut Ctx<'a>, _: &mut UC, n: &InlineFragment) { self.rec(c, format!("+{}", r_inline(n))) }
    fn leave_inline_fragment(&mut self, c: &mut Ctx<'a>, _: &mut UC, n: &InlineFragment) { self.rec(c, format!("-{}", r_inline(n))) }
    fn enter_null_value(&mut self, c: &mut Ctx<'a>, _: &mut UC, _: ()) { self.rec(c, "+null".into()) }
    fn leave_null_value(&mut self, c: &mut Ctx<'a>, _: &mut UC, _: ()) { self.rec(c, "-null".into()) }
    fn enter_scalar_value(&mut self, c: &mut Ctx<'a>, _: &mut UC, n: &Value) { self.rec(c, format!("+scalar:{}", r_value(n))) }
    fn leave_scalar_value(&mut self, c: &mut Ctx<'a>, _: &mut UC, n: &Value) { self.rec(c, format!("-scalar:{}", r_value(n))) }
    fn enter_enum_value(&mut self, c: &mut Ctx<'a>, _: &mut UC, n: &String) { self.rec(c, format!("+enum:{}", id(n))) }
    fn leave_enum_value(&mut self, c: &mut Ctx<'a>, _: &mut UC, n: &String) { self.rec(c, format!("-enum:{}", id(n))) }
    fn enter_variable_value(&mut self, c: &mut Ctx<'a>, _: &mut UC, n: &'a str) { self.rec(c, format!("+variable:{}", id(n))) }
    fn leave_variable_value(&mut self, c: &mut Ctx<'a>, _: &mut UC, n: &String) { self.rec(c, format!("-variable:{}", id(n))) }
    fn enter_list_value(&mut self, c: &mut Ctx<'a>, _: &mut UC, n: &Vec<Value>) { self.rec(c, format!("+list:{}", r_value(&Value::List(n.clone())))) }
    fn leave_list_value(&mut self, c: &mut Ctx<'a>, _: &mut UC, n: &Vec<Value>) { self.rec(c, format!("-list:{}", r_value(&Value::List(n.clone())))) }
    fn enter_object_value(&mut self, c: &mut Ctx<'a>, _: &mut UC, n: &BTreeMap<String, Value>) { self.rec(c, format!("+object:{}", r_value(&Value::Object(n.clone())))) }
    fn leave_object_value(&mut self, c: &mut Ctx<'a>, _: &mut UC, n: &BTreeMap<String, Value>) { self.rec(c, format!("-object:{}", r_value(&Value::Object(n.clone())))) }
    fn enter_object_field(&mut self, c: &mut Ctx<'a>, _: &mut UC, n: &(String, Value)) { self.rec(c, format!("+ofield:{}={}", id(&n.0), r_value(&n.1))) }
    fn leave_object_field(&mut self, c: &mut Ctx<'a>, _: &mut UC, n: &(String, Value)) { self.rec(c, format!("-ofield:{}={}", id(&n.0), r_value(&n.1))) }
}
