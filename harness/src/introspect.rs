//! C20: introspection JSON rendered from schemas (optional members present / null / absent),
//! structurally mutated JSON, chunked and failing readers.
use crate::{gen, rng::Rng, Out};
use graphql_tools::ast::*;
use graphql_tools::introspection::{parse_introspection, parse_introspection_from_string};
use graphql_tools::static_graphql::{query as q, schema as s};
use serde_json::{json, Map, Value as J};
use std::io::Read;

/// how an optional (nullable in the spec) member is rendered: 0 = value (or null if there is none), 1 = null, 2 = absent
pub struct Policy<'r> { pub rng: &'r mut Rng, pub mode: usize }
impl<'r> Policy<'r> {
    fn opt(&mut self, m: &mut Map<String, J>, key: &str, v: Option<J>) {
        let mode = if self.mode == 3 { self.rng.below(3) } else { self.mode };
        match mode { 0 => { m.insert(key.into(), v.unwrap_or(J::Null)); } 1 => { m.insert(key.into(), J::Null); } _ => {} }
    }
}

fn kind_of(schema: &s::Document, name: &str) -> &'static str {
    match schema.type_by_name(name) {
        Some(s::TypeDefinition::Scalar(_)) => "SCALAR", Some(s::TypeDefinition::Object(_)) => "OBJECT", Some(s::TypeDefinition::Interface(_)) => "INTERFACE",
        Some(s::TypeDefinition::Union(_)) => "UNION", Some(s::TypeDefinition::Enum(_)) => "ENUM", Some(s::TypeDefinition::InputObject(_)) => "INPUT_OBJECT", None => "SCALAR",
    }
}

fn type_ref(schema: &s::Document, t: &q::Type, p: &mut Policy) -> J {
    let mut m = Map::new();
    match t {
        q::Type::NamedType(n) => { m.insert("kind".into(), json!(kind_of(schema, n))); m.insert("name".into(), json!(n)); p.opt(&mut m, "ofType", None); }
        q::Type::ListType(i) => { m.insert("kind".into(), json!("LIST")); p.opt(&mut m, "name", None); m.insert("ofType".into(), type_ref(schema, i, p)); }
        q::Type::NonNullType(i) => { m.insert("kind".into(), json!("NON_NULL")); p.opt(&mut m, "name", None); m.insert("ofType".into(), type_ref(schema, i, p)); }
    }
    J::Object(m)
}

fn input_value(schema: &s::Document, v: &s::InputValue, p: &mut Policy) -> J {
    let mut m = Map::new();
    m.insert("name".into(), json!(v.name));
    p.opt(&mut m, "description", v.description.clone().map(|d| json!(d)));
    m.insert("type".into(), type_ref(schema, &v.value_type, p));
    p.opt(&mut m, "defaultValue", v.default_value.as_ref().map(|d| json!(format!("{}", d))));
    p.opt(&mut m, "isDeprecated", Some(json!(false)));
    p.opt(&mut m, "deprecationReason", None);
    J::Object(m)
}

fn field(schema: &s::Document, f: &s::Field, p: &mut Policy) -> J {
    let mut m = Map::new();
    m.insert("name".into(), json!(f.name));
    p.opt(&mut m, "description", f.description.clone().map(|d| json!(d)));
    m.insert("args".into(), J::Array(f.arguments.iter().map(|a| input_value(schema, a, p)).collect()));
    m.insert("type".into(), type_ref(schema, &f.field_type, p));
    p.opt(&mut m, "isDeprecated", Some(json!(true)));
    p.opt(&mut m, "deprecationReason", Some(json!("because")));
    J::Object(m)
}

fn named(n: &str) -> J { json!({"kind": "OBJECT", "name": n, "ofType": null}) }

pub fn render(schema: &s::Document, p: &mut Policy) -> J {
    let mut types = vec![];
    for d in &schema.definitions {
        let t = match d { s::Definition::TypeDefinition(t) => t, _ => continue };
        let mut m = Map::new();
        m.insert("name".into(), json!(t.name()));
        match t {
            s::TypeDefinition::Scalar(x) => { m.insert("kind".into(), json!("SCALAR")); p.opt(&mut m, "description", x.description.clone().map(|d| json!(d))); p.opt(&mut m, "specifiedByURL", Some(json!("https://example.com/sc\u{e4}lar/\u{1F4A1}")));
                p.opt(&mut m, "fields", None); p.opt(&mut m, "enumValues", None); }
            s::TypeDefinition::Object(x) => { m.insert("kind".into(), json!("OBJECT")); p.opt(&mut m, "description", x.description.clone().map(|d| json!(d)));
                m.insert("fields".into(), J::Array(x.fields.iter().map(|f| field(schema, f, p)).collect()));
                m.insert("interfaces".into(), J::Array(x.implements_interfaces.iter().map(|n| json!({"kind": "INTERFACE", "name": n, "ofType": null})).collect()));
                p.opt(&mut m, "possibleTypes", None); p.opt(&mut m, "inputFields", None); }
            s::TypeDefinition::Interface(x) => { m.insert("kind".into(), json!("INTERFACE")); p.opt(&mut m, "description", x.description.clone().map(|d| json!(d)));
                m.insert("fields".into(), J::Array(x.fields.iter().map(|f| field(schema, f, p)).collect()));
                p.opt(&mut m, "interfaces", Some(J::Array(x.implements_interfaces.iter().map(|n| json!({"kind": "INTERFACE", "name": n})).collect())));
                m.insert("possibleTypes".into(), J::Array(t.possible_types(schema).iter().map(|o| named(&o.name)).collect())); }
            s::TypeDefinition::Union(x) => { m.insert("kind".into(), json!("UNION")); p.opt(&mut m, "description", x.description.clone().map(|d| json!(d)));
                m.insert("possibleTypes".into(), J::Array(x.types.iter().map(|n| named(n)).collect())); p.opt(&mut m, "fields", None); }
            s::TypeDefinition::Enum(x) => { m.insert("kind".into(), json!("ENUM")); p.opt(&mut m, "description", x.description.clone().map(|d| json!(d)));
                m.insert("enumValues".into(), J::Array(x.values.iter().map(|v| { let mut e = Map::new(); e.insert("name".into(), json!(v.name));
                    p.opt(&mut e, "description", v.description.clone().map(|d| json!(d))); p.opt(&mut e, "isDeprecated", Some(json!(false))); p.opt(&mut e, "deprecationReason", None); J::Object(e) }).collect())); }
            s::TypeDefinition::InputObject(x) => { m.insert("kind".into(), json!("INPUT_OBJECT")); p.opt(&mut m, "description", x.description.clone().map(|d| json!(d)));
                m.insert("inputFields".into(), J::Array(x.fields.iter().map(|f| input_value(schema, f, p)).collect())); }
        }
        types.push(J::Object(m));
    }
    let mut dirs = vec![];
    for d in &schema.definitions {
        if let s::Definition::DirectiveDefinition(x) = d {
            let mut m = Map::new();
            m.insert("name".into(), json!(x.name));
            p.opt(&mut m, "description", x.description.clone().map(|d| json!(d)));
            p.opt(&mut m, "isRepeatable", Some(json!(x.repeatable)));
            m.insert("locations".into(), J::Array(x.locations.iter().map(|l| json!(l.as_str())).collect()));
            m.insert("args".into(), J::Array(x.arguments.iter().map(|a| input_value(schema, a, p)).collect()));
            dirs.push(J::Object(m));
        }
    }
    let mut sm = Map::new();
    // 2-, 3- and 4-byte UTF-8 sequences: a reader that splits the bytes anywhere must not change the text
    p.opt(&mut sm, "description", Some(json!("a sch\u{e9}ma \u{2014} \u{6a21}\u{5f0f} \u{1F600} \"quoted\" \\ end")));
    let qn = schema.schema_definition().query.clone().unwrap_or("Query".into());
    sm.insert("queryType".into(), json!({"name": qn}));
    p.opt(&mut sm, "mutationType", schema.mutation_type().map(|t| json!({"name": t.name})));
    p.opt(&mut sm, "subscriptionType", schema.subscription_type().map(|t| json!({"name": t.name})));
    sm.insert("types".into(), J::Array(types));
    sm.insert("directives".into(), J::Array(dirs));
    json!({"__schema": J::Object(sm)})
}

/// a reader that hands out the bytes in chunks of `chunk` and fails at offset `fail_at`
struct TestReader<'a> { data: &'a [u8], pos: usize, chunk: usize, fail_at: Option<usize> }
impl<'a> Read for TestReader<'a> {
    fn read(&mut self, buf: &mut [u8]) -> std::io::Result<usize> {
        if let Some(k) = self.fail_at { if self.pos >= k { return Err(std::io::Error::new(std::io::ErrorKind::Other, "injected I/O failure")); } }
        let mut n = std::cmp::min(std::cmp::min(self.chunk, buf.len()), self.data.len() - self.pos);
        if let Some(k) = self.fail_at { n = std::cmp::min(n, k - self.pos); if n == 0 && self.pos < self.data.len() { return Err(std::io::Error::new(std::io::ErrorKind::Other, "injected I/O failure")); } }
        buf[..n].copy_from_slice(&self.data[self.pos..self.pos + n]);
        self.pos += n;
        Ok(n)
    }
}

fn canon_of(text: &str) -> Result<J, String> {
    match std::panic::catch_unwind(|| parse_introspection_from_string(text)) {
        Ok(Ok(v)) => Ok(serde_json::to_value(&v).unwrap()),
        Ok(Err(e)) => Err(e.to_string()),
        Err(_) => Err("PANIC".into()),
    }
}

pub fn introspect_case(key: &str, text: &str, fault_samples: usize, rng: &mut Rng, out: &mut Out) {
    let base = canon_of(text);
    let base_ok = base.is_ok();
    let mut readers_ok = true; let mut faults_ok = true; let mut fixpoint = true; let mut panicked = matches!(&base, Err(e) if e == "PANIC");
    let bytes = text.as_bytes();
    for chunk in [1usize, 2, 7, 4096, usize::MAX] {
        if bytes.len() > 200_000 && chunk < 7 { continue; }
        let r = std::panic::catch_unwind(|| parse_introspection(TestReader { data: bytes, pos: 0, chunk, fail_at: None }));
        match r {
            Ok(Ok(v)) => { if !base_ok || serde_json::to_value(&v).unwrap() != *base.as_ref().unwrap() { readers_ok = false; } }
            Ok(Err(_)) => { if base_ok { readers_ok = false; } }
            Err(_) => { panicked = true; }
        }
    }
    let offsets: Vec<usize> = if bytes.len() <= fault_samples { (0..bytes.len()).collect() } else { (0..fault_samples).map(|_| rng.below(bytes.len())).collect() };
    for k in offsets {
        let chunk = [1usize, 7, 4096][k % 3];
        if bytes.len() > 200_000 && chunk < 7 { continue; }
        let r = std::panic::catch_unwind(|| parse_introspection(TestReader { data: bytes, pos: 0, chunk, fail_at: Some(k) }));
        match r { Ok(Ok(_)) => { faults_ok = false; } Ok(Err(_)) => {} Err(_) => { panicked = true; } }
    }
    if let Ok(c) = &base {
        let again = canon_of(&c.to_string());
        fixpoint = matches!(&again, Ok(c2) if c2 == c);
    }
    out.push(json!({"op": "introspect", "key": key, "json": text, "bytes": bytes.len(),
        "impl": {"r": if base_ok { "ok" } else { "err" }, "canon": base.as_ref().ok(), "error": base.as_ref().err(),
                 "readers_ok": readers_ok, "faults_ok": faults_ok, "fixpoint": fixpoint, "panicked": panicked}}));
}

/// structural mutations of a conforming result: member removed, kind changed, wrong JSON type
pub fn mutate(v: &J, rng: &mut Rng) -> Option<(String, J)> {
    let mut v = v.clone();
    let types = v["__schema"]["types"].as_array_mut()?;
    if types.is_empty() { return None; }
    let i = rng.below(types.len());
    let what = rng.below(8);
    let label;
    match what {
        0 => { types[i].as_object_mut()?.remove("name"); label = "type without name"; }
        1 => { types[i]["kind"] = json!("NOPE"); label = "unknown type kind"; }
        2 => { types[i]["kind"] = json!(7); label = "kind is a number"; }
        3 => { let t = types[i].as_object_mut()?; if t.get("kind") == Some(&json!("OBJECT")) { t.remove("interfaces"); label = "object without interfaces"; } else { t.remove("kind"); label = "type without kind"; } }
        4 => { v["__schema"].as_object_mut()?.remove("queryType"); label = "schema without queryType"; }
        5 => { v["__schema"]["types"] = json!({"not": "a list"}); label = "types is an object"; }
        6 => { v["__schema"]["directives"] = json!([{"name": "d", "locations": ["NOWHERE"], "args": []}]); label = "unknown directive location"; }
        _ => { let t = types[i].as_object_mut()?; t.insert("name".into(), json!(["a"])); label = "name is a list"; }
    }
    Some((label.to_string(), v))
}

pub fn schema_cases(si: &gen::SchemaInfo, rng: &mut Rng, thorough: bool, out: &mut Out) {
    for mode in 0..4 {
        let v = { let mut p = Policy { rng: &mut *rng, mode }; render(&si.doc, &mut p) };
        let text = if mode % 2 == 0 { v.to_string() } else { serde_json::to_string_pretty(&v).unwrap() };
        introspect_case(&format!("{}:policy{}", si.name, mode), &text, if thorough { 2000 } else { 120 }, rng, out);
        for k in 0..(if thorough { 12 } else { 4 }) {
            if let Some((label, m)) = mutate(&v, rng) { introspect_case(&format!("{}:policy{}:mut{}:{}", si.name, mode, k, label), &m.to_string(), 40, rng, out); }
        }
        // malformed JSON: truncation, stray token
        let t = v.to_string();
        let mut cut = rng.below(t.len().max(1));
        while !t.is_char_boundary(cut) { cut -= 1; }
        introspect_case(&format!("{}:policy{}:truncated", si.name, mode), &t[..cut], 20, rng, out);
        introspect_case(&format!("{}:policy{}:garbage", si.name, mode), &format!("{}}}", t), 20, rng, out);
        // long runs of 2-, 3- and 4-byte characters at every alignment: whatever block size a reader-side buffer uses (up to 64 KiB),
        // some character straddles a block boundary - the text parsed through a reader is the text parsed from the string
        if mode == 0 && si.name == "names" {
            for (ch, width) in [("\u{e9}", 2usize), ("\u{20ac}", 3), ("\u{1F600}", 4)] {
                for shift in 0..width {
                    let mut w = v.clone();
                    w["__schema"]["description"] = json!(format!("{}{}", "x".repeat(shift), ch.repeat(140_000 / width)));
                    introspect_case(&format!("{}:policy{}:wide{}-{}", si.name, mode, width, shift), &w.to_string(), 4, rng, out);
                }
            }
        }
        // text that is not JSON only because of what precedes or follows the value: a byte order mark, other invisible
        // characters, a second value - rejected by the string entry point, so rejected through every reader
        if mode == 0 {
            for (label, pre, post) in [("bom", "\u{feff}", ""), ("bom-space", "\u{feff} ", ""), ("nbsp", "\u{a0}", ""), ("zwsp-after", "", "\u{200b}"), ("nul-after", "", "\u{0}"),
                                       ("two-values", "", " {}"), ("comment", "// dump\n", ""), ("bom-after", "", "\u{feff}"), ("leading-ws", " \n\t\r", " \n")] {
                let kind = if label == "leading-ws" { "ws" } else { "garbage" };
                introspect_case(&format!("{}:policy{}:{}-{}", si.name, mode, kind, label), &format!("{}{}{}", pre, t, post), 20, rng, out);
            }
        }
    }
}
