//! C12: the result of validation is a function of (schema, document, plan) only.
//! One batch per schema: a baseline observation per document, then repeated runs, interleaved
//! runs through one shared plan, 16 threads sharing &plan/&schema, clone-equality of the inputs,
//! and the same documents through the second parser backend (separate build of this harness).
use crate::{enc, gen, valcases, Out};
use graphql_tools::static_graphql::query as q;
use graphql_tools::validation::rules::default_rules_validation_plan;
use graphql_tools::validation::validate::validate;
use serde_json::{json, Value as J};

/// canonical form of a default-plan result: per rule group (consecutive equal codes, in plan order)
/// the sorted rendered errors
pub fn canon(errs: &[graphql_tools::validation::utils::ValidationError]) -> Vec<(String, Vec<String>)> {
    let mut out: Vec<(String, Vec<String>)> = vec![];
    for e in errs {
        let r = valcases::render_err(e);
        match out.last_mut() { Some(g) if g.0 == e.error_code => g.1.push(r), _ => out.push((e.error_code.to_string(), vec![r])) }
    }
    for g in out.iter_mut() { g.1.sort(); }
    out
}

pub fn batch(si: &gen::SchemaInfo, texts: &[String], tmpdir: &str, fork_exe: Option<&str>, out: &mut Out) {
    // keep documents on which the default plan terminates in-process (not the F16 class)
    let mut docs: Vec<(String, q::Document, J)> = vec![];
    for t in texts {
        let d = match gen::parse_doc(t) { Some(d) => d, None => continue };
        let obs = if valcases::is_cyclic(&d) { valcases::observe_isolated(si, t, tmpdir) } else { valcases::observe(&si.doc, &d, false) };
        if obs["outcome"] != "ok" || obs.get("mergeCrash").is_some() { continue; }
        docs.push((t.clone(), d, obs));
    }
    let schema = &si.doc;
    let schema_before = schema.clone();
    let docs_before: Vec<q::Document> = docs.iter().map(|d| d.1.clone()).collect();
    let plan = default_rules_validation_plan();
    let base: Vec<Vec<(String, Vec<String>)>> = docs.iter().map(|d| canon(&validate(schema, &d.1, &plan))).collect();
    let n = docs.len();
    let mut repeat_ok = vec![true; n]; let mut inter_ok = vec![true; n]; let mut thread_ok = vec![true; n];
    // (i) repeated
    for (i, d) in docs.iter().enumerate() { for _ in 0..3 { if canon(&validate(schema, &d.1, &plan)) != base[i] { repeat_ok[i] = false; } } }
    // (ii) interleaved through the one shared plan, forwards and backwards
    for i in (0..n).chain((0..n).rev()) { if canon(&validate(schema, &docs[i].1, &plan)) != base[i] { inter_ok[i] = false; } }
    // (iii) 16 threads sharing &plan and &schema, each in a different order
    let results: Vec<Vec<(usize, bool)>> = std::thread::scope(|sc| {
        let hs: Vec<_> = (0..16).map(|t| {
            let plan = &plan; let docs = &docs; let base = &base;
            std::thread::Builder::new().stack_size(256 << 20).spawn_scoped(sc, move || {
                let mut r = vec![];
                for k in 0..n { let i = (k * (2 * t + 1) + t) % n; r.push((i, canon(&validate(schema, &docs[i].1, plan)) == base[i])); }
                r
            }).unwrap()
        }).collect();
        hs.into_iter().map(|h| h.join().unwrap_or_default()).collect()
    });
    for r in results { for (i, ok) in r { if !ok { thread_ok[i] = false; } } }
    // (iv) inputs untouched
    let schema_same = *schema == schema_before;
    // (v) the other parser backend
    let fork: Option<Vec<J>> = fork_exe.and_then(|exe| {
        std::fs::create_dir_all(tmpdir).ok();
        let sp = format!("{}/fork-schema.graphql", tmpdir); let dp = format!("{}/fork-docs.json", tmpdir);
        std::fs::write(&sp, &si.text).ok()?;
        std::fs::write(&dp, serde_json::to_string(&docs.iter().map(|d| d.0.clone()).collect::<Vec<_>>()).ok()?).ok()?;
        let o = std::process::Command::new(exe).args(["observe-batch", &sp, &dp]).output().ok()?;
        if !o.status.success() { return None; }
        serde_json::from_slice(&o.stdout).ok()
    });
    // (vi) history across schemas: a fresh process of this same build, which has seen this schema only
    let fresh: Option<Vec<J>> = std::env::current_exe().ok().and_then(|exe| {
        std::fs::create_dir_all(tmpdir).ok();
        let sp = format!("{}/fresh-schema.graphql", tmpdir); let dp = format!("{}/fresh-docs.json", tmpdir);
        std::fs::write(&sp, &si.text).ok()?;
        std::fs::write(&dp, serde_json::to_string(&docs.iter().map(|d| d.0.clone()).collect::<Vec<_>>()).ok()?).ok()?;
        let o = std::process::Command::new(exe).args(["observe-batch", &sp, &dp]).output().ok()?;
        if !o.status.success() { return None; }
        serde_json::from_slice(&o.stdout).ok()
    });
    for (i, d) in docs.iter().enumerate() {
        let base_j: Vec<J> = base[i].iter().map(|g| json!([g.0, g.1])).collect();
        out.push(json!({"op": "validate", "src": d.0, "doc": enc::document(&d.1), "cyclic": valcases::is_cyclic(&d.1), "impl": d.2,
            "purity": {"base": base_j, "repeat_ok": repeat_ok[i], "interleave_ok": inter_ok[i], "threads_ok": thread_ok[i],
                       "schema_unchanged": schema_same, "doc_unchanged": d.1 == docs_before[i],
                       "fork": fork.as_ref().map(|f| f[i].clone()),
                       "fresh_ok": fresh.as_ref().map(|f| f[i]["single"] == d.2["single"] && f[i]["outcome"] == d.2["outcome"])}}));
    }
}

/// child mode of the fork build: observations for a batch of documents
pub fn observe_batch(schema_path: &str, docs_path: &str) {
    let st = std::fs::read_to_string(schema_path).unwrap();
    let texts: Vec<String> = serde_json::from_str(&std::fs::read_to_string(docs_path).unwrap()).unwrap();
    let schema = graphql_tools::parser::parse_schema::<String>(&st).unwrap().into_static();
    let res: Vec<J> = texts.iter().map(|t| match gen::parse_doc(t) { Some(d) => valcases::observe(&schema, &d, false), None => json!({"outcome": "unparseable"}) }).collect();
    println!("{}", J::Array(res));
}
