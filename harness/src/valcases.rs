//! Validation cases: every rule alone + the default plan on the real crate.
use crate::{enc, gen, Out};
use graphql_tools::static_graphql::{query as q, schema as s};
use graphql_tools::validation::rules::*;
use graphql_tools::validation::utils::ValidationError;
use graphql_tools::validation::validate::{validate, ValidationPlan};
use serde_json::{json, Value as J};
use std::collections::{HashMap, HashSet};

pub const RULES: [&str; 24] = [
    "UniqueOperationNames", "LoneAnonymousOperation", "SingleFieldSubscriptions", "KnownTypeNames",
    "FragmentsOnCompositeTypes", "VariablesAreInputTypes", "LeafFieldSelections", "FieldsOnCorrectType",
    "UniqueFragmentNames", "KnownFragmentNames", "NoUnusedFragments", "OverlappingFieldsCanBeMerged",
    "NoFragmentsCycle", "PossibleFragmentSpreads", "NoUnusedVariables", "NoUndefinedVariables",
    "KnownArgumentNames", "UniqueArgumentNames", "UniqueVariableNames", "ProvidedRequiredArguments",
    "KnownDirectives", "VariablesInAllowedPosition", "ValuesOfCorrectType", "UniqueDirectivesPerLocation",
];

pub fn rule_by_name(n: &str) -> Box<dyn ValidationRule> {
    match n {
        "UniqueOperationNames" => Box::new(UniqueOperationNames::new()),
        "LoneAnonymousOperation" => Box::new(LoneAnonymousOperation::new()),
        "SingleFieldSubscriptions" => Box::new(SingleFieldSubscriptions::new()),
        "KnownTypeNames" => Box::new(KnownTypeNames::new()),
        "FragmentsOnCompositeTypes" => Box::new(FragmentsOnCompositeTypes::new()),
        "VariablesAreInputTypes" => Box::new(VariablesAreInputTypes::new()),
        "LeafFieldSelections" => Box::new(LeafFieldSelections::new()),
        "FieldsOnCorrectType" => Box::new(FieldsOnCorrectType::new()),
        "UniqueFragmentNames" => Box::new(UniqueFragmentNames::new()),
        "KnownFragmentNames" => Box::new(KnownFragmentNames::new()),
        "NoUnusedFragments" => Box::new(NoUnusedFragments::new()),
        "OverlappingFieldsCanBeMerged" => Box::new(OverlappingFieldsCanBeMerged::new()),
        "NoFragmentsCycle" => Box::new(NoFragmentsCycle::new()),
        "PossibleFragmentSpreads" => Box::new(PossibleFragmentSpreads::new()),
        "NoUnusedVariables" => Box::new(NoUnusedVariables::new()),
        "NoUndefinedVariables" => Box::new(NoUndefinedVariables::new()),
        "KnownArgumentNames" => Box::new(KnownArgumentNames::new()),
        "UniqueArgumentNames" => Box::new(UniqueArgumentNames::new()),
        "UniqueVariableNames" => Box::new(UniqueVariableNames::new()),
        "ProvidedRequiredArguments" => Box::new(ProvidedRequiredArguments::new()),
        "KnownDirectives" => Box::new(KnownDirectives::new()),
        "VariablesInAllowedPosition" => Box::new(VariablesInAllowedPosition::new()),
        "ValuesOfCorrectType" => Box::new(ValuesOfCorrectType::new()),
        "UniqueDirectivesPerLocation" => Box::new(UniqueDirectivesPerLocation::new()),
        _ => panic!("unknown rule {}", n),
    }
}

pub fn plan_of(names: &[&str]) -> ValidationPlan { ValidationPlan { rules: names.iter().map(|n| rule_by_name(n)).collect() } }

pub fn render_err(e: &ValidationError) -> String {
    format!("{} @{}", e.message, e.locations.iter().map(|p| enc::r_pos(p)).collect::<Vec<_>>().join(","))
}

fn spreads_in(ss: &q::SelectionSet, out: &mut HashSet<String>) {
    for x in &ss.items {
        match x {
            q::Selection::Field(f) => spreads_in(&f.selection_set, out),
            q::Selection::InlineFragment(f) => spreads_in(&f.selection_set, out),
            q::Selection::FragmentSpread(f) => { out.insert(f.fragment_name.clone()); }
        }
    }
}

/// does the fragment-spread graph (over all definitions of a name) contain a cycle?
pub fn is_cyclic(doc: &q::Document) -> bool {
    let mut g: HashMap<String, HashSet<String>> = HashMap::new();
    for d in &doc.definitions { if let q::Definition::Fragment(f) = d { spreads_in(&f.selection_set, g.entry(f.name.clone()).or_default()); } }
    fn dfs(n: &str, g: &HashMap<String, HashSet<String>>, on: &mut HashSet<String>, done: &mut HashSet<String>) -> bool {
        if on.contains(n) { return true; }
        if done.contains(n) { return false; }
        on.insert(n.to_string());
        if let Some(ns) = g.get(n) { for m in ns { if dfs(m, g, on, done) { return true; } } }
        on.remove(n); done.insert(n.to_string());
        false
    }
    let mut done = HashSet::new();
    for n in g.keys() { let mut on = HashSet::new(); if dfs(n, &g, &mut on, &mut done) { return true; } }
    false
}

/// run every rule alone and the default plan, in this process
pub fn observe(schema: &s::Document, doc: &q::Document, skip_merge: bool) -> J { observe_rules(schema, doc, skip_merge, &RULES, true) }

/// run the given rules alone (and optionally the default plan)
pub fn observe_rules(schema: &s::Document, doc: &q::Document, skip_merge: bool, rules: &[&str], with_plan: bool) -> J {
    let t0 = std::time::Instant::now();
    let mut single = serde_json::Map::new();
    let mut panicked = false;
    for r in rules.iter() {
        if skip_merge && *r == "OverlappingFieldsCanBeMerged" { continue; }
        let res = std::panic::catch_unwind(std::panic::AssertUnwindSafe(|| { let plan = plan_of(&[r]); validate(schema, doc, &plan) }));
        match res {
            Ok(errs) => {
                let mut v: Vec<String> = errs.iter().map(render_err).collect(); v.sort();
                let codes_ok = errs.iter().all(|e| e.error_code == *r);
                single.insert(r.to_string(), json!({"errs": v, "codes_ok": codes_ok}));
            }
            Err(_) => { panicked = true; }
        }
    }
    if !with_plan { return json!({"outcome": if panicked { "panic" } else { "ok" }, "single": single, "plan": J::Null, "mergeSkipped": skip_merge, "us": t0.elapsed().as_micros() as u64}); }
    let names: Vec<&str> = RULES.iter().cloned().filter(|r| !(skip_merge && *r == "OverlappingFieldsCanBeMerged")).collect();
    let res = std::panic::catch_unwind(std::panic::AssertUnwindSafe(|| { let plan = default_rules_validation_plan(); if skip_merge { validate(schema, doc, &plan_of(&names)) } else { validate(schema, doc, &plan) } }));
    let plan_obs = match res {
        Ok(errs) => json!(errs.iter().map(|e| json!([e.error_code, render_err(e), serde_json::to_value(e).unwrap()])).collect::<Vec<_>>()),
        Err(_) => { panicked = true; J::Null }
    };
    json!({"outcome": if panicked { "panic" } else { "ok" }, "single": single, "plan": plan_obs, "mergeSkipped": skip_merge, "us": t0.elapsed().as_micros() as u64})
}

/// the same in a child process (a stack overflow of the merge rule aborts the process)
pub fn observe_isolated(si: &gen::SchemaInfo, text: &str, tmpdir: &str) -> J {
    std::fs::create_dir_all(tmpdir).ok();
    let sp = format!("{}/schema.graphql", tmpdir); let dp = format!("{}/doc.graphql", tmpdir);
    std::fs::write(&sp, &si.text).unwrap(); std::fs::write(&dp, text).unwrap();
    let exe = std::env::current_exe().unwrap();
    let run = |mode: &str| -> Option<J> {
        let out = std::process::Command::new(&exe).args(["validate-one", &sp, &dp, mode]).output().ok()?;
        if !out.status.success() { return None; }
        serde_json::from_slice(&out.stdout).ok()
    };
    match run("full") {
        Some(j) => j,
        None => match run("nomerge") {
            Some(mut j) => { j["mergeCrash"] = json!(true); j }
            None => json!({"outcome": "crash"}),
        },
    }
}

/// (number of selection nodes, maximal selection nesting) of a document
pub fn size_depth(doc: &q::Document) -> (usize, usize) {
    fn sel(ss: &q::SelectionSet, depth: usize, n: &mut usize, maxd: &mut usize) {
        if !ss.items.is_empty() && depth > *maxd { *maxd = depth; }
        for x in &ss.items {
            *n += 1;
            match x {
                q::Selection::Field(f) => sel(&f.selection_set, depth + 1, n, maxd),
                q::Selection::FragmentSpread(_) => {}
                q::Selection::InlineFragment(f) => sel(&f.selection_set, depth + 1, n, maxd),
            }
        }
    }
    let (mut n, mut maxd) = (0usize, 0usize);
    for d in &doc.definitions {
        n += 1;
        match d {
            q::Definition::Fragment(f) => sel(&f.selection_set, 1, &mut n, &mut maxd),
            q::Definition::Operation(o) => { use graphql_tools::ast::OperationDefinitionExtension; sel(o.selection_set(), 1, &mut n, &mut maxd) }
        }
    }
    (n, maxd)
}

/// a whole-plan case with size, depth and time, every run in a child process when the document is cyclic
pub fn termination_case(si: &gen::SchemaInfo, text: &str, tmpdir: &str, family: &str, out: &mut Out) {
    let doc = match gen::parse_doc(text) { Some(d) => d, None => return };
    let cyclic = is_cyclic(&doc);
    let (nodes, depth) = size_depth(&doc);
    let obs = if cyclic { observe_isolated(si, text, tmpdir) } else { observe(&si.doc, &doc, false) };
    out.push(json!({"op": "validate", "src": text, "doc": enc::document(&doc), "cyclic": cyclic, "impl": obs,
        "meta": {"nodes": nodes, "depth": depth, "family": family}}));
}

/// positions of all nodes of the wire AST (every `[line, col]` in a position slot)
pub fn positions(doc: &q::Document) -> Vec<String> {
    fn dirs(ds: &[q::Directive], out: &mut Vec<String>) { for d in ds { out.push(enc::r_pos(&d.position)); } }
    fn sel(ss: &q::SelectionSet, out: &mut Vec<String>) {
        for x in &ss.items {
            match x {
                q::Selection::Field(f) => { out.push(enc::r_pos(&f.position)); dirs(&f.directives, out); sel(&f.selection_set, out); }
                q::Selection::FragmentSpread(f) => { out.push(enc::r_pos(&f.position)); dirs(&f.directives, out); }
                q::Selection::InlineFragment(f) => { out.push(enc::r_pos(&f.position)); dirs(&f.directives, out); sel(&f.selection_set, out); }
            }
        }
    }
    let mut out = vec![];
    for d in &doc.definitions {
        match d {
            q::Definition::Fragment(f) => { out.push(enc::r_pos(&f.position)); dirs(&f.directives, &mut out); sel(&f.selection_set, &mut out); }
            q::Definition::Operation(o) => {
                use graphql_tools::ast::OperationDefinitionExtension;
                match o { q::OperationDefinition::Query(x) => out.push(enc::r_pos(&x.position)), q::OperationDefinition::Mutation(x) => out.push(enc::r_pos(&x.position)),
                          q::OperationDefinition::Subscription(x) => out.push(enc::r_pos(&x.position)), _ => {} }
                for v in o.variable_definitions() { out.push(enc::r_pos(&v.position)); }
                dirs(o.directives(), &mut out); sel(o.selection_set(), &mut out);
            }
        }
    }
    out.sort(); out.dedup();
    out
}

/// random plans: sub-sequences, permutations, repetitions of the 24 rules
pub fn random_plans(rng: &mut crate::rng::Rng, n: usize) -> Vec<Vec<&'static str>> {
    (0..n).map(|_| {
        let len = rng.range(1, 8);
        let mut p: Vec<&'static str> = (0..len).map(|_| *rng.pick(&RULES)).collect();
        if rng.pct(30) { let mut all: Vec<&'static str> = RULES.to_vec(); rng.shuffle(&mut all); p = all; }
        p
    }).collect()
}

pub fn validate_case(si: &gen::SchemaInfo, text: &str, tmpdir: &str, out: &mut Out) {
    validate_case_plans(si, text, tmpdir, &[], out)
}

pub fn validate_case_plans(si: &gen::SchemaInfo, text: &str, tmpdir: &str, plans: &[Vec<&'static str>], out: &mut Out) {
    let doc = match gen::parse_doc(text) { Some(d) => d, None => return };
    let cyclic = is_cyclic(&doc);
    let obs = if cyclic { observe_isolated(si, text, tmpdir) } else { observe(&si.doc, &doc, false) };
    let mut plan_runs = vec![];
    if !cyclic {
        for p in plans {
            let r = std::panic::catch_unwind(std::panic::AssertUnwindSafe(|| { let plan = plan_of(p); validate(&si.doc, &doc, &plan) }));
            if let Ok(errs) = r { plan_runs.push(json!({"plan": p, "errs": errs.iter().map(|e| json!([e.error_code, render_err(e)])).collect::<Vec<_>>()})); }
        }
    }
    out.push(json!({"op": "validate", "src": text, "doc": enc::document(&doc), "cyclic": cyclic, "impl": obs,
        "positions": positions(&doc), "planRuns": plan_runs}));
}

/// a case restricted to some rules (used by the per-rule enumerators); acyclic documents only run in-process
/// when non-zero, the per-rule enumerators emit whole-plan cases instead (one in `FULL_MODE` documents)
pub static PRINTER_LOSSY: std::sync::atomic::AtomicUsize = std::sync::atomic::AtomicUsize::new(0);
pub static FULL_MODE: std::sync::atomic::AtomicUsize = std::sync::atomic::AtomicUsize::new(0);
/// in full mode: emit termination cases (C03) instead of accept cases (C01/C02)
pub static FULL_TERMINATION: std::sync::atomic::AtomicBool = std::sync::atomic::AtomicBool::new(false);
static FULL_COUNT: std::sync::atomic::AtomicUsize = std::sync::atomic::AtomicUsize::new(0);

/// number of selection nodes after expanding every fragment spread (acyclic documents), capped
pub fn inlined_size(doc: &q::Document) -> usize {
    use std::collections::HashMap;
    let frags: HashMap<&str, &q::FragmentDefinition> = doc.definitions.iter().filter_map(|d| match d { q::Definition::Fragment(f) => Some((f.name.as_str(), f)), _ => None }).collect();
    fn sel(ss: &q::SelectionSet, frags: &HashMap<&str, &q::FragmentDefinition>, fuel: usize, cap: usize) -> usize {
        let mut n = 0usize;
        for x in &ss.items {
            n += 1;
            if n > cap { return n; }
            n += match x {
                q::Selection::Field(f) => sel(&f.selection_set, frags, fuel, cap),
                q::Selection::InlineFragment(f) => sel(&f.selection_set, frags, fuel, cap),
                q::Selection::FragmentSpread(f) => if fuel == 0 { 0 } else { frags.get(f.fragment_name.as_str()).map(|fd| sel(&fd.selection_set, frags, fuel - 1, cap)).unwrap_or(0) },
            };
        }
        n
    }
    let mut total = 0usize;
    for d in &doc.definitions {
        use graphql_tools::ast::OperationDefinitionExtension;
        total += match d { q::Definition::Operation(o) => sel(o.selection_set(), &frags, frags.len() + 1, 5000), q::Definition::Fragment(f) => sel(&f.selection_set, &frags, frags.len() + 1, 5000) };
    }
    total
}

/// the executable spec of FieldsInSetCanMerge is exponential in the nesting of same-key fields: ask for it on small documents only
pub fn spec_affordable(doc: &q::Document) -> bool {
    let (_, depth) = size_depth(doc);
    inlined_size(doc) <= 120 && depth <= 9
}

/// the default plan and every single-rule plan, the driver also evaluating the spec's FieldsInSetCanMerge
pub fn accept_case(si: &gen::SchemaInfo, text: &str, tmpdir: &str, meta: serde_json::Value, out: &mut Out) {
    let doc = match gen::parse_doc(text) { Some(d) => d, None => return };
    let cyclic = is_cyclic(&doc);
    let obs = if cyclic { observe_isolated(si, text, tmpdir) } else { observe(&si.doc, &doc, false) };
    out.push(json!({"op": "validate", "src": text, "doc": enc::document(&doc), "cyclic": cyclic, "impl": obs, "mergeSpec": !cyclic && spec_affordable(&doc), "meta": meta}));
}

fn full_mode(si: &gen::SchemaInfo, text: &str, tmpdir: &str, meta: serde_json::Value, out: &mut Out) -> bool {
    use std::sync::atomic::Ordering::Relaxed;
    let k = FULL_MODE.load(Relaxed);
    if k == 0 { return false; }
    if FULL_COUNT.fetch_add(1, Relaxed) % k == 0 {
        if FULL_TERMINATION.load(Relaxed) { termination_case(si, text, tmpdir, "rule-enumerator", out); } else { accept_case(si, text, tmpdir, meta, out); }
    }
    true
}

/// the field-merging rule alone, the driver also evaluating the spec's FieldsInSetCanMerge (`mergeSpec`)
pub fn merge_case(si: &gen::SchemaInfo, text: &str, tmpdir: &str, meta: serde_json::Value, out: &mut Out) {
    if full_mode(si, text, tmpdir, meta.clone(), out) { return; }
    let doc = match gen::parse_doc(text) { Some(d) => d, None => return };
    let cyclic = is_cyclic(&doc);
    let rules = ["OverlappingFieldsCanBeMerged"];
    let obs = if cyclic { observe_isolated(si, text, tmpdir) } else { observe_rules(&si.doc, &doc, false, &rules, false) };
    out.push(json!({"op": "validate", "src": text, "doc": enc::document(&doc), "cyclic": cyclic, "rules": rules, "impl": obs, "mergeSpec": !cyclic && spec_affordable(&doc), "meta": meta}));
}

/// like `rules_case`, with generator-side facts about the case (`meta`) carried along for the check
pub fn rules_case_meta(si: &gen::SchemaInfo, text: &str, rules: &[&str], tmpdir: &str, meta: serde_json::Value, out: &mut Out) {
    if full_mode(si, text, tmpdir, meta.clone(), out) { return; }
    let doc = match gen::parse_doc(text) { Some(d) => d, None => return };
    let cyclic = is_cyclic(&doc);
    let obs = if cyclic && rules.contains(&"OverlappingFieldsCanBeMerged") { observe_isolated(si, text, tmpdir) } else { observe_rules(&si.doc, &doc, false, rules, false) };
    out.push(json!({"op": "validate", "src": text, "doc": enc::document(&doc), "cyclic": cyclic, "rules": rules, "impl": obs, "meta": meta}));
}

static COMPANION: std::sync::atomic::AtomicUsize = std::sync::atomic::AtomicUsize::new(0);

/// every seventh enumerated document that defines fragments is also run with two companion operations around it - one before
/// that spreads the first fragment, one after that spreads all of them - so that whatever a rule keeps per operation (visited
/// sets, memo tables, collected usages) meets fragments an earlier operation has walked already
fn with_companions(text: &str) -> Option<String> {
    let n = COMPANION.fetch_add(1, std::sync::atomic::Ordering::Relaxed);
    if n % 7 != 3 || text.contains("XCompanion") { return None; }
    let mut names: Vec<&str> = vec![];
    let mut rest = text;
    while let Some(i) = rest.find("fragment ") {
        let after = &rest[i + 9..];
        let end = after.find(|c: char| !(c.is_alphanumeric() || c == '_')).unwrap_or(after.len());
        let name = &after[..end];
        if !name.is_empty() && after[end..].trim_start().starts_with("on ") && !names.contains(&name) { names.push(name); }
        rest = &after[end..];
    }
    if names.is_empty() || names.len() > 8 { return None; }
    let all: String = names.iter().map(|n| format!(" ...{}", n)).collect();
    Some(format!("query XCompanionA {{ ...{} }} {} query XCompanionZ {{{} }}", names[0], text, all))
}

/// every seventh enumerated document with several definitions also runs with its definitions in reverse order, and every
/// seventh with every selection set, argument list and variable list reversed (what is defined before what it uses, what comes
/// first among siblings) - judged against the model like any other document
fn reordered(text: &str) -> Vec<String> {
    let n = COMPANION.load(std::sync::atomic::Ordering::Relaxed);
    if text.contains("XCompanion") || (n % 7 != 5 && n % 7 != 6) { return vec![]; }
    let doc = match gen::parse_doc(text) { Some(d) => d, None => return vec![] };
    let d2 = if n % 7 == 5 {
        if doc.definitions.len() < 2 { return vec![]; }
        crate::rewrite::reverse_definitions(&doc)
    } else {
        crate::rewrite::reverse_variables(&crate::rewrite::reverse_arguments(&crate::rewrite::reverse_selections(&doc)))
    };
    match crate::rewrite::reparse(&d2) { Some(_) => { let t = format!("{}", d2); if t == text { vec![] } else { vec![t] } }, None => vec![] }
}

pub fn rules_case(si: &gen::SchemaInfo, text: &str, rules: &[&str], tmpdir: &str, out: &mut Out) {
    if !text.contains("XReordered") {
        if let Some(t) = with_companions(text) { rules_case(si, &t, rules, tmpdir, out); }
        for t in reordered(text) {
            // a marker comment keeps the variant from being reordered again
            rules_case(si, &format!("# XReordered\n{}", t), rules, tmpdir, out);
        }
    }
    if full_mode(si, text, tmpdir, json!({"family": "rule-enumerator"}), out) { return; }
    let doc = match gen::parse_doc(text) { Some(d) => d, None => return };
    let cyclic = is_cyclic(&doc);
    let obs = if cyclic && rules.contains(&"OverlappingFieldsCanBeMerged") { observe_isolated(si, text, tmpdir) } else { observe_rules(&si.doc, &doc, false, rules, false) };
    out.push(json!({"op": "validate", "src": text, "doc": enc::document(&doc), "cyclic": cyclic, "rules": rules, "impl": obs}));
}
