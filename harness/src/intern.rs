//! Name interning shared with the Lean model: names starting with "__" get odd ids, all
//! others even ids; the first entries are reserved (see Model/Ast.lean).
use std::collections::HashMap;
use std::sync::Mutex;

pub struct Interner {
    pub even: Vec<String>,
    pub odd: Vec<String>,
    map: HashMap<String, usize>,
}

const RESERVED_EVEN: [&str; 8] = [
    "Query", "Mutation", "Subscription", "Int", "Float", "String", "Boolean", "ID",
];
const RESERVED_ODD: [&str; 11] = [
    "__typename", "__schema", "__type", "__Schema", "__Directive", "__DirectiveLocation",
    "__Type", "__Field", "__InputValue", "__EnumValue", "__TypeKind",
];

impl Interner {
    fn new() -> Self {
        let mut i = Interner { even: vec![], odd: vec![], map: HashMap::new() };
        for s in RESERVED_EVEN { i.id(s); }
        for s in RESERVED_ODD { i.id(s); }
        i
    }
    pub fn id(&mut self, s: &str) -> usize {
        if let Some(v) = self.map.get(s) { return *v; }
        let v = if s.starts_with("__") {
            self.odd.push(s.to_string()); 2 * (self.odd.len() - 1) + 1
        } else {
            self.even.push(s.to_string()); 2 * (self.even.len() - 1)
        };
        self.map.insert(s.to_string(), v);
        v
    }
    /// table indexed by id ("" where an id is not allocated)
    pub fn table(&self) -> Vec<String> {
        let n = std::cmp::max(2 * self.even.len(), 2 * self.odd.len() + 1);
        let mut t = vec![String::new(); n];
        for (i, s) in self.even.iter().enumerate() { t[2 * i] = s.clone(); }
        for (i, s) in self.odd.iter().enumerate() { t[2 * i + 1] = s.clone(); }
        t
    }
}


static INTERNER: Mutex<Option<Interner>> = Mutex::new(None);

pub fn id(s: &str) -> usize {
    let mut g = INTERNER.lock().unwrap();
    if g.is_none() { *g = Some(Interner::new()); }
    g.as_mut().unwrap().id(s)
}

pub fn table() -> Vec<String> {
    let mut g = INTERNER.lock().unwrap();
    if g.is_none() { *g = Some(Interner::new()); }
    g.as_ref().unwrap().table()
}
