//! graphql-parser AST → wire JSON (DESIGN appendix B) and canonical one-line renderings that
//! the Lean driver (Driver/Render.lean) produces identically from the model.
use crate::intern::id;
use graphql_tools::static_graphql::{query as q, schema as s};
use graphql_tools::parser::Pos;
use serde_json::{json, Value as J};

pub fn ty(t: &q::Type) -> J {
    match t {
        q::Type::NamedType(n) => json!(["n", id(n)]),
        q::Type::ListType(i) => json!(["l", ty(i)]),
        q::Type::NonNullType(i) => json!(["nn", ty(i)]),
    }
}

pub fn value(v: &q::Value) -> J {
    match v {
        q::Value::Variable(n) => json!(["var", id(n)]),
        q::Value::Int(n) => json!(["int", n.as_i64().unwrap().to_string()]),
        q::Value::Float(f) => json!(["flt", id(&format!("{}", f))]),
        q::Value::String(x) => json!(["str", id(x)]),
        q::Value::Boolean(b) => json!(["bool", b]),
        q::Value::Null => json!(["null"]),
        q::Value::Enum(n) => json!(["enum", id(n)]),
        q::Value::List(vs) => json!(["list", vs.iter().map(value).collect::<Vec<_>>()]),
        q::Value::Object(m) => json!(["obj", m.iter().map(|(k, v)| json!([id(k), value(v)])).collect::<Vec<_>>()]),
    }
}

pub fn pos(p: &Pos) -> J { json!([p.line, p.column]) }

pub fn args(a: &[(String, q::Value)]) -> J {
    J::Array(a.iter().map(|(k, v)| json!([id(k), value(v)])).collect())
}

pub fn directive(d: &q::Directive) -> J { json!([pos(&d.position), id(&d.name), args(&d.arguments)]) }
pub fn directives(d: &[q::Directive]) -> J { J::Array(d.iter().map(directive).collect()) }

pub fn selection(x: &q::Selection) -> J {
    match x {
        q::Selection::Field(f) => json!(["f", pos(&f.position), f.alias.as_ref().map(|a| id(a)), id(&f.name),
            args(&f.arguments), directives(&f.directives), selset(&f.selection_set)]),
        q::Selection::FragmentSpread(f) => json!(["s", pos(&f.position), id(&f.fragment_name), directives(&f.directives)]),
        q::Selection::InlineFragment(f) => json!(["i", pos(&f.position),
            f.type_condition.as_ref().map(|q::TypeCondition::On(n)| id(n)), directives(&f.directives), selset(&f.selection_set)]),
    }
}
pub fn selset(x: &q::SelectionSet) -> J { J::Array(x.items.iter().map(selection).collect()) }

pub fn vardef(v: &q::VariableDefinition) -> J {
    json!([pos(&v.position), id(&v.name), ty(&v.var_type), v.default_value.as_ref().map(value)])
}

pub fn document(d: &q::Document) -> J {
    J::Array(d.definitions.iter().map(|def| match def {
        q::Definition::Operation(o) => match o {
            q::OperationDefinition::SelectionSet(ss) => json!(["ss", selset(ss)]),
            q::OperationDefinition::Query(x) => json!(["q", pos(&x.position), x.name.as_ref().map(|n| id(n)),
                x.variable_definitions.iter().map(vardef).collect::<Vec<_>>(), directives(&x.directives), selset(&x.selection_set)]),
            q::OperationDefinition::Mutation(x) => json!(["m", pos(&x.position), x.name.as_ref().map(|n| id(n)),
                x.variable_definitions.iter().map(vardef).collect::<Vec<_>>(), directives(&x.directives), selset(&x.selection_set)]),
            q::OperationDefinition::Subscription(x) => json!(["sub", pos(&x.position), x.name.as_ref().map(|n| id(n)),
                x.variable_definitions.iter().map(vardef).collect::<Vec<_>>(), directives(&x.directives), selset(&x.selection_set)]),
        },
        q::Definition::Fragment(f) => {
            let q::TypeCondition::On(tc) = &f.type_condition;
            json!(["frag", pos(&f.position), id(&f.name), id(tc), directives(&f.directives), selset(&f.selection_set)])
        }
    }).collect())
}

fn input_value(v: &s::InputValue) -> J { json!([id(&v.name), ty(&v.value_type), v.default_value.as_ref().map(value)]) }
fn field_def(f: &s::Field) -> J {
    json!([id(&f.name), f.arguments.iter().map(input_value).collect::<Vec<_>>(), ty(&f.field_type)])
}
fn ids(v: &[String]) -> J { J::Array(v.iter().map(|n| json!(id(n))).collect()) }

pub fn dir_loc(l: &s::DirectiveLocation) -> usize {
    use s::DirectiveLocation::*;
    match l {
        Query => 0, Mutation => 1, Subscription => 2, Field => 3, FragmentDefinition => 4,
        FragmentSpread => 5, InlineFragment => 6, Schema => 7, Scalar => 8, Object => 9,
        FieldDefinition => 10, ArgumentDefinition => 11, Interface => 12, Union => 13, Enum => 14,
        EnumValue => 15, InputObject => 16, InputFieldDefinition => 17,
        #[allow(unreachable_patterns)]
        _ => 99,
    }
}

pub fn type_def(t: &s::TypeDefinition) -> J {
    match t {
        s::TypeDefinition::Scalar(x) => json!(["scalar", id(&x.name)]),
        s::TypeDefinition::Object(x) => json!(["object", id(&x.name), ids(&x.implements_interfaces), x.fields.iter().map(field_def).collect::<Vec<_>>()]),
        s::TypeDefinition::Interface(x) => json!(["interface", id(&x.name), ids(&x.implements_interfaces), x.fields.iter().map(field_def).collect::<Vec<_>>()]),
        s::TypeDefinition::Union(x) => json!(["union", id(&x.name), ids(&x.types)]),
        s::TypeDefinition::Enum(x) => json!(["enum", id(&x.name), x.values.iter().map(|v| json!(id(&v.name))).collect::<Vec<_>>()]),
        s::TypeDefinition::InputObject(x) => json!(["input", id(&x.name), x.fields.iter().map(input_value).collect::<Vec<_>>()]),
    }
}

pub fn schema(d: &s::Document) -> J {
    J::Array(d.definitions.iter().map(|def| match def {
        s::Definition::SchemaDefinition(x) => json!(["schema", x.query.as_ref().map(|n| id(n)), x.mutation.as_ref().map(|n| id(n)), x.subscription.as_ref().map(|n| id(n))]),
        s::Definition::TypeDefinition(t) => json!(["type", type_def(t)]),
        s::Definition::DirectiveDefinition(x) => json!(["directive", id(&x.name), x.repeatable,
            x.locations.iter().map(|l| json!(dir_loc(l))).collect::<Vec<_>>(), x.arguments.iter().map(input_value).collect::<Vec<_>>()]),
        s::Definition::TypeExtension(_) => json!(["ext"]),
    }).collect())
}

// ---------- canonical renderings (mirror Driver/Render.lean) ----------

pub fn r_ty(t: &q::Type) -> String {
    match t {
        q::Type::NamedType(n) => format!("n{}", id(n)),
        q::Type::ListType(i) => format!("[{}]", r_ty(i)),
        q::Type::NonNullType(i) => format!("{}!", r_ty(i)),
    }
}

pub fn r_value(v: &q::Value) -> String {
    match v {
        q::Value::Variable(n) => format!("${}", id(n)),
        q::Value::Int(n) => n.as_i64().unwrap().to_string(),
        q::Value::Float(f) => format!("f{}", id(&format!("{}", f))),
        q::Value::String(x) => format!("s{}", id(x)),
        q::Value::Boolean(b) => (if *b { "true" } else { "false" }).to_string(),
        q::Value::Null => "null".to_string(),
        q::Value::Enum(n) => format!("e{}", id(n)),
        q::Value::List(vs) => format!("[{}]", vs.iter().map(r_value).collect::<Vec<_>>().join(",")),
        q::Value::Object(m) => format!("{{{}}}", m.iter().map(|(k, v)| format!("{}:{}", id(k), r_value(v))).collect::<Vec<_>>().join(",")),
    }
}

pub fn r_pos(p: &Pos) -> String { format!("{}:{}", p.line, p.column) }
pub fn r_opt_name(n: Option<&String>) -> String { n.map(|n| id(n).to_string()).unwrap_or("-".to_string()) }

pub fn r_type_def(t: &s::TypeDefinition) -> String {
    match t {
        s::TypeDefinition::Scalar(x) => format!("S{}", id(&x.name)),
        s::TypeDefinition::Object(x) => format!("O{}", id(&x.name)),
        s::TypeDefinition::Interface(x) => format!("I{}", id(&x.name)),
        s::TypeDefinition::Union(x) => format!("U{}", id(&x.name)),
        s::TypeDefinition::Enum(x) => format!("E{}", id(&x.name)),
        s::TypeDefinition::InputObject(x) => format!("N{}", id(&x.name)),
    }
}
