//! splitmix64; every random choice of a run derives from one seed.
#[derive(Clone)]
pub struct Rng(pub u64);

impl Rng {
    pub fn new(seed: u64) -> Self { Rng(seed.wrapping_mul(0x9E3779B97F4A7C15).wrapping_add(0x1234_5678_9ABC_DEF1)) }
    pub fn next(&mut self) -> u64 {
        self.0 = self.0.wrapping_add(0x9E3779B97F4A7C15);
        let mut z = self.0;
        z = (z ^ (z >> 30)).wrapping_mul(0xBF58476D1CE4E5B9);
        z = (z ^ (z >> 27)).wrapping_mul(0x94D049BB133111EB);
        z ^ (z >> 31)
    }
    pub fn below(&mut self, n: usize) -> usize { if n == 0 { 0 } else { (self.next() % (n as u64)) as usize } }
    pub fn range(&mut self, lo: usize, hi: usize) -> usize { lo + self.below(hi - lo + 1) }
    /// true with probability pct/100
    pub fn pct(&mut self, pct: usize) -> bool { self.below(100) < pct }
    pub fn pick<'a, T>(&mut self, v: &'a [T]) -> &'a T { &v[self.below(v.len())] }
    pub fn fork(&mut self) -> Rng { Rng(self.next()) }
    pub fn shuffle<T>(&mut self, v: &mut Vec<T>) {
        for i in (1..v.len()).rev() { let j = self.below(i + 1); v.swap(i, j); }
    }
}
