//! C17: probe transformers over the real `OperationTransformer` trait.
use crate::{enc, gen, intern::id, rng::Rng, Out};
use graphql_tools::ast::{OperationTransformer, Transformed, TransformedValue};
use graphql_tools::parser::query::*;
use graphql_tools::parser::Pos;
use serde_json::{json, Value as J};

pub const HOOKS: [&str; 11] = ["definition", "operation", "fragment", "selectionSet", "field", "spread", "inline", "directive", "argument", "value", "varDef"];

#[derive(Clone, Default)]
pub struct Probe { pub modulus: usize, pub residue: usize, pub marker: String, pub nullify: bool }
impl Probe { fn hit(&self, key: usize) -> bool { self.modulus != 0 && key % self.modulus == self.residue } }

#[derive(Default)]
pub struct ProbeT { pub hooks: [Option<Probe>; 11], pub log: Vec<(usize, usize)> }

type S = String;
fn pos_key(p: &Pos) -> usize { p.line * 1000 + p.column }
fn value_key(v: &Value<'static, S>) -> usize {
    match v { Value::Variable(_) => 0, Value::Int(n) => { let i = n.as_i64().unwrap(); if i < 0 { 10 } else { i as usize + 10 } }
        Value::Float(_) => 2, Value::String(_) => 3, Value::Boolean(_) => 4, Value::Null => 5, Value::Enum(_) => 6, Value::List(_) => 7, Value::Object(_) => 8 }
}
fn op_key(o: &OperationDefinition<'static, S>) -> usize {
    match o { OperationDefinition::SelectionSet(_) => 0, OperationDefinition::Query(q) => pos_key(&q.position),
        OperationDefinition::Mutation(q) => pos_key(&q.position), OperationDefinition::Subscription(q) => pos_key(&q.position) }
}
fn rename_op(o: OperationDefinition<'static, S>, m: &str) -> OperationDefinition<'static, S> {
    match o {
        OperationDefinition::SelectionSet(s) => OperationDefinition::SelectionSet(s),
        OperationDefinition::Query(mut q) => { q.name = Some(m.to_string()); OperationDefinition::Query(q) }
        OperationDefinition::Mutation(mut q) => { q.name = Some(m.to_string()); OperationDefinition::Mutation(q) }
        OperationDefinition::Subscription(mut q) => { q.name = Some(m.to_string()); OperationDefinition::Subscription(q) }
    }
}

impl OperationTransformer<'static, S> for ProbeT {
    fn transform_definition(&mut self, x: &Definition<'static, S>) -> Transformed<Definition<'static, S>> {
        let p = match &self.hooks[0] { Some(p) => p.clone(), None => return self.default_transform_definition(x) };
        let key = match x { Definition::Operation(o) => op_key(o), Definition::Fragment(f) => pos_key(&f.position) };
        self.log.push((0, key));
        let d = self.default_transform_definition(x);
        if p.hit(key) {
            let cur = match d { Transformed::Keep => x.clone(), Transformed::Replace(y) => y };
            Transformed::Replace(match cur { Definition::Operation(o) => Definition::Operation(rename_op(o, &p.marker)),
                Definition::Fragment(mut f) => { f.name = p.marker.clone(); Definition::Fragment(f) } })
        } else { d }
    }
    fn transform_operation(&mut self, x: &OperationDefinition<'static, S>) -> Transformed<OperationDefinition<'static, S>> {
        let p = match &self.hooks[1] { Some(p) => p.clone(), None => return self.default_transform_operation(x) };
        let key = op_key(x); self.log.push((1, key));
        let d = self.default_transform_operation(x);
        if p.hit(key) { Transformed::Replace(rename_op(match d { Transformed::Keep => x.clone(), Transformed::Replace(y) => y }, &p.marker)) } else { d }
    }
    fn transform_fragment(&mut self, x: &FragmentDefinition<'static, S>) -> Transformed<FragmentDefinition<'static, S>> {
        let p = match &self.hooks[2] { Some(p) => p.clone(), None => return self.default_transform_fragment(x) };
        let key = pos_key(&x.position); self.log.push((2, key));
        let d = self.default_transform_fragment(x);
        if p.hit(key) { let mut c = match d { Transformed::Keep => x.clone(), Transformed::Replace(y) => y }; c.name = p.marker.clone(); Transformed::Replace(c) } else { d }
    }
    fn transform_selection_set(&mut self, x: &SelectionSet<'static, S>) -> TransformedValue<Vec<Selection<'static, S>>> {
        let p = match &self.hooks[3] { Some(p) => p.clone(), None => return self.transform_list(&x.items, Self::transform_selection) };
        let key = x.items.len(); self.log.push((3, key));
        let d = self.transform_list(&x.items, Self::transform_selection);
        if p.hit(key) {
            let mut items = match d { TransformedValue::Keep => x.items.clone(), TransformedValue::Replace(y) => y };
            items.push(Selection::Field(Field { position: Pos { line: 0, column: 0 }, alias: None, name: p.marker.clone(), arguments: vec![], directives: vec![],
                selection_set: SelectionSet { span: (Pos { line: 0, column: 0 }, Pos { line: 0, column: 0 }), items: vec![] } }));
            TransformedValue::Replace(items)
        } else { d }
    }
    fn transform_field(&mut self, x: &Field<'static, S>) -> Transformed<Selection<'static, S>> {
        let p = match &self.hooks[4] { Some(p) => p.clone(), None => return self.default_transform_field(x) };
        let key = pos_key(&x.position); self.log.push((4, key));
        let d = self.default_transform_field(x);
        if p.hit(key) {
            let cur = match d { Transformed::Keep => Selection::Field(x.clone()), Transformed::Replace(y) => y };
            Transformed::Replace(match cur { Selection::Field(mut f) => { f.name = p.marker.clone(); Selection::Field(f) } other => other })
        } else { d }
    }
    fn transform_fragment_spread(&mut self, x: &FragmentSpread<'static, S>) -> Transformed<Selection<'static, S>> {
        let p = match &self.hooks[5] { Some(p) => p.clone(), None => return self.default_transform_fragment_spread(x) };
        let key = pos_key(&x.position); self.log.push((5, key));
        let d = self.default_transform_fragment_spread(x);
        if p.hit(key) {
            let cur = match d { Transformed::Keep => Selection::FragmentSpread(x.clone()), Transformed::Replace(y) => y };
            Transformed::Replace(match cur { Selection::FragmentSpread(mut f) => { f.fragment_name = p.marker.clone(); Selection::FragmentSpread(f) } other => other })
        } else { d }
    }
    fn transform_inline_fragment(&mut self, x: &InlineFragment<'static, S>) -> Transformed<Selection<'static, S>> {
        let p = match &self.hooks[6] { Some(p) => p.clone(), None => return self.default_transform_inline_fragment(x) };
        let key = pos_key(&x.position); self.log.push((6, key));
        let d = self.default_transform_inline_fragment(x);
        if p.hit(key) {
            let cur = match d { Transformed::Keep => Selection::InlineFragment(x.clone()), Transformed::Replace(y) => y };
            Transformed::Replace(match cur { Selection::InlineFragment(mut f) => { f.type_condition = Some(TypeCondition::On(p.marker.clone())); Selection::InlineFragment(f) } other => other })
        } else { d }
    }
    fn transform_directive(&mut self, x: &Directive<'static, S>) -> Transformed<Directive<'static, S>> {
        let p = match &self.hooks[7] { Some(p) => p.clone(), None => return self.default_transform_directive(x) };
        let key = pos_key(&x.position); self.log.push((7, key));
        let d = self.default_transform_directive(x);
        if p.hit(key) { let mut c = match d { Transformed::Keep => x.clone(), Transformed::Replace(y) => y }; c.name = p.marker.clone(); Transformed::Replace(c) } else { d }
    }
    fn transform_argument(&mut self, x: &(S, Value<'static, S>)) -> Transformed<(S, Value<'static, S>)> {
        let p = match &self.hooks[8] { Some(p) => p.clone(), None => return self.default_transform_argument(x) };
        let key = id(&x.0); self.log.push((8, key));
        let d = self.default_transform_argument(x);
        if p.hit(key) { let c = match d { Transformed::Keep => x.clone(), Transformed::Replace(y) => y }; Transformed::Replace((p.marker.clone(), c.1)) } else { d }
    }
    fn transform_value(&mut self, x: &Value<'static, S>) -> TransformedValue<Value<'static, S>> {
        let p = match &self.hooks[9] { Some(p) => p.clone(), None => return self.default_transform_value(x) };
        let key = value_key(x); self.log.push((9, key));
        let d = self.default_transform_value(x);
        if p.hit(key) { TransformedValue::Replace(if p.nullify { Value::Null } else { Value::Enum(p.marker.clone()) }) } else { d }
    }
    fn transform_variable_definition(&mut self, x: &VariableDefinition<'static, S>) -> TransformedValue<VariableDefinition<'static, S>> {
        let p = match &self.hooks[10] { Some(p) => p.clone(), None => return self.default_transform_variable_definition(x) };
        let key = pos_key(&x.position); self.log.push((10, key));
        let d = self.default_transform_variable_definition(x);
        if p.hit(key) { let mut c = match d { TransformedValue::Keep => x.clone(), TransformedValue::Replace(y) => y }; c.name = p.marker.clone(); TransformedValue::Replace(c) } else { d }
    }
}

pub fn transform_case(text: &str, hooks: &[Option<Probe>; 11], out: &mut Out) {
    let doc = match gen::parse_doc(text) { Some(d) => d, None => return };
    let before = doc.clone();
    let mut t = ProbeT { hooks: hooks.clone(), log: vec![] };
    let r = std::panic::catch_unwind(std::panic::AssertUnwindSafe(|| t.transform_document(&doc)));
    let (keep, res_doc, outcome) = match r {
        Ok(TransformedValue::Keep) => (true, doc.clone(), "ok"),
        Ok(TransformedValue::Replace(d2)) => (false, d2, "ok"),
        Err(_) => (true, doc.clone(), "panic"),
    };
    // spans are not in the model: check directly that every selection set that is structurally present in both keeps its span
    let hj: serde_json::Map<String, J> = HOOKS.iter().zip(hooks.iter()).filter_map(|(n, p)| p.as_ref().map(|p| (n.to_string(), if p.nullify { json!([p.modulus, p.residue, id(&p.marker), 1]) } else { json!([p.modulus, p.residue, id(&p.marker)]) }))).collect();
    let no_hooks = hooks.iter().all(|h| h.is_none());
    out.push(json!({"op": "transform", "src": text, "doc": enc::document(&doc), "hooks": hj,
        "impl": {"outcome": outcome, "keep": keep, "doc": enc::document(&res_doc),
                 "log": t.log.iter().map(|(h, k)| json!([HOOKS[*h], k])).collect::<Vec<_>>(),
                 "input_unchanged": doc == before, "identity": if no_hooks { json!(res_doc == before) } else { J::Null }}}));
}

pub fn random_hooks(rng: &mut Rng) -> [Option<Probe>; 11] {
    let mut h: [Option<Probe>; 11] = Default::default();
    let n = match rng.below(10) { 0 => 0, 1..=6 => 1, 7..=8 => 2, _ => 4 };
    for _ in 0..n {
        let i = rng.below(11);
        let m = rng.range(1, 4);
        h[i] = Some(Probe { modulus: m, residue: rng.below(m), marker: format!("R_{}", HOOKS[i]), nullify: i == 9 && rng.below(3) == 0 });
    }
    h
}
