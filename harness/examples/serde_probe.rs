use graphql_tools::introspection::*;
fn main() {
    let f: Result<IntrospectionField, _> = serde_json::from_str(r#"{"name":"f","args":[],"type":{"kind":"SCALAR","name":"Int"}}"#);
    println!("field without kind: {:?}", f.as_ref().map(|_| "ok").map_err(|e| e.to_string()));
    if let Ok(f) = &f { println!("ser: {}", serde_json::to_string(f).unwrap()); }
    let f2: Result<IntrospectionField, _> = serde_json::from_str(r#"{"kind":"zzz","name":"f","args":[],"type":{"name":"Int","kind":"SCALAR","extra":1}}"#);
    println!("field with wrong kind: {:?}", f2.as_ref().map(|_| "ok").map_err(|e| e.to_string()));
    let t: Result<IntrospectionOutputTypeRef, _> = serde_json::from_str(r#"{"kind":"LIST"}"#);
    println!("LIST no ofType: {:?}", t.as_ref().map(|x| serde_json::to_string(x).unwrap()).map_err(|e| e.to_string()));
    let t: Result<IntrospectionOutputTypeRef, _> = serde_json::from_str(r#"{"ofType":{"kind":"SCALAR","name":"X","ofType":null},"kind":"NON_NULL"}"#);
    println!("tag last: {:?}", t.as_ref().map(|x| serde_json::to_string(x).unwrap()).map_err(|e| e.to_string()));
    let v: Result<IntrospectionInputValue, _> = serde_json::from_str(r#"{"name":"a","defaultValue":null,"type":null}"#);
    println!("input value nulls: {:?}", v.as_ref().map(|x| serde_json::to_string(x).unwrap()).map_err(|e| e.to_string()));
    let v: Result<IntrospectionInputValue, _> = serde_json::from_str(r#"{"name":"a","name":"b"}"#);
    println!("dup key: {:?}", v.as_ref().map(|x| serde_json::to_string(x).unwrap()).map_err(|e| e.to_string()));
    let v: Result<IntrospectionObjectType, _> = serde_json::from_str(r#"{"name":"a","fields":[]}"#);
    println!("missing vec: {:?}", v.as_ref().map(|x| serde_json::to_string(x).unwrap()).map_err(|e| e.to_string()));
    let v: Result<IntrospectionDirective, _> = serde_json::from_str(r#"{"name":"a","locations":["QUERY","NOPE"],"args":[]}"#);
    println!("bad location: {:?}", v.as_ref().map(|x| serde_json::to_string(x).unwrap()).map_err(|e| e.to_string()));
    let v: Result<IntrospectionType, _> = serde_json::from_str(r#"{"name":"a","kind":"OBJECT","fields":[],"interfaces":[],"kind":"SCALAR"}"#);
    println!("dup tag: {:?}", v.as_ref().map(|x| serde_json::to_string(x).unwrap()).map_err(|e| e.to_string()));
}
